package components

import (
	"sort"
	"strings"

	"github.com/scipipe/scipipe"
)

// Model validation scenarios: concrete workflows written with the public API only. The
// same function is (a) interpreted by gose on the environment model and (b) compiled and run
// natively in a scratch directory with real bash, a real file system and a `vcmd` shell
// script; both emit the final directory listing and the stable fields of every audit
// record, and the two outputs must be identical.

func vxEmitAudit(path string) {
	if !strings.HasSuffix(path, ".audit.json") {
		return
	}
	ai := scipipe.UnmarshalAuditInfoJSONFile(path)
	ups := []string{}
	for k, u := range ai.Upstream {
		if vxGet("scenario") == 2 {
			// streaming: whether the consumer's record names the producer depends on the
			// schedule (known finding KF-C17-2), so only the key is compared
			ups = append(ups, k)
			continue
		}
		ups = append(ups, k+"<-"+u.ProcessName)
	}
	sort.Strings(ups)
	tags := []string{}
	for k, v := range ai.Tags {
		tags = append(tags, k+"="+v)
	}
	sort.Strings(tags)
	pars := []string{}
	for k, v := range ai.Params {
		pars = append(pars, k+"="+v)
	}
	sort.Strings(pars)
	vxEmit("audit " + path + " proc=" + ai.ProcessName + " cmd=[" + ai.Command + "] params=" + strings.Join(pars, ",") + " tags=" + strings.Join(tags, ",") + " upstream=" + strings.Join(ups, ","))
}

func vxEmitState(label string) {
	vxEmit("state " + label)
	for _, p := range vxListing() {
		if strings.HasPrefix(p, "log/") || p == "log" {
			continue
		}
		vxEmit("path " + p)
		vxEmitAudit(p)
	}
}

func VxHNV() {
	scenario := vxGet("scenario")
	vxCmdFree(false, false)
	mk := func() *scipipe.Workflow { return scipipe.NewWorkflowCustomLogFile("w", 4, "log/w.log") }
	switch scenario {
	case 0: // chain with two outputs, nested and plain paths; then the same workflow again
		for round := 0; round < 2; round++ {
			wf := mk()
			a := wf.NewProc("a", "vcmd w:{o:o1} w:{o:o2}")
			a.SetOut("o1", "sub/dir/a.txt")
			a.SetOut("o2", "a2.txt")
			b := wf.NewProc("b", "vcmd r:{i:in} w:{o:out} x:extra_b.txt")
			b.SetOut("out", "{i:in|basename|%.txt}.b.txt")
			b.In("in").From(a.Out("o1"))
			kind := vxRun(func() { wf.Run() })
			vxEmit("run " + kind)
			vxEmitState("after run")
		}
	case 1: // tagging, two-input merge with a parameter, final step (the C10 workflow)
		vxNVFile("in1.txt")
		vxNVFile("in2.txt")
		wf := vxBuild10("")
		kind := vxRun(func() { wf.Run() })
		vxEmit("run " + kind)
		vxEmitState("after run")
	case 2: // streaming pair with two items
		wf := mk()
		p := wf.NewProc("prod", "vcmd w:{os:s} # {p:k}")
		p.SetOut("s", "s{p:k}.txt")
		p.InParam("k").FromStr("1", "2")
		c := wf.NewProc("cons", "vcmd r:{i:in} w:{o:out}")
		c.SetOut("out", "{i:in|basename}.c.txt")
		c.In("in").From(p.Out("s"))
		kind := vxRun(func() { wf.Run() })
		vxEmit("run " + kind)
		vxEmitState("after run")
	case 3: // parameter source, fan-out, fan-in, RunTo
		wf := mk()
		s := NewParamSource(wf, "S", "1", "2", "3")
		a := wf.NewProc("A", "vcmd w:{o:out} # {p:x}")
		a.SetOut("out", "A.{p:x}.txt")
		a.InParam("x").From(s.Out())
		b := wf.NewProc("B", "vcmd r:{i:in} w:{o:out}")
		b.SetOut("out", "{i:in|%.txt}.B.txt")
		b.In("in").From(a.Out("out"))
		c := wf.NewProc("C", "vcmd r:{i:in} w:{o:out}")
		c.SetOut("out", "{i:in|%.txt}.C.txt")
		c.In("in").From(a.Out("out"))
		c.In("in").From(b.Out("out"))
		d := wf.NewProc("D", "vcmd r:{i:in} w:{o:out}")
		d.SetOut("out", "{i:in|%.txt}.D.txt")
		d.In("in").From(c.Out("out"))
		kind := vxRun(func() { wf.RunTo("C") })
		vxEmit("run " + kind)
		vxEmitState("after RunTo(C)")
	case 10: // a command's standard output turned into parameters (CommandToParams)
		vxNVLines("printed.txt", []string{"x1", "y2"})
		wf := mk()
		c2p := NewCommandToParams(wf, "c2p", "vcmd p:printed.txt")
		a := wf.NewProc("A", "vcmd w:{o:out} # {p:x}")
		a.SetOut("out", "A.{p:x}.txt")
		a.InParam("x").From(c2p.OutParam())
		kind := vxRun(func() { wf.Run() })
		vxEmit("run " + kind)
		vxEmitState("after run")
	case 7, 8, 9: // a failing command: exit status 3 after a partial write / its shell killed by a signal / declared output never written
		if vxGet("report") == 0 {
			wf := mk()
			apat := map[int]string{7: "vcmd w:{o:o2} h:{o:o1} e:3", 8: "vcmd w:{o:o2} h:{o:o1} e:255", 9: "vcmd w:{o:o2} # {o:o1}"}[scenario]
			a := wf.NewProc("a", apat)
			a.SetOut("o1", "sub/a.txt")
			a.SetOut("o2", "a2.txt")
			b := wf.NewProc("b", "vcmd r:{i:in} w:{o:out}")
			b.SetOut("out", "b.txt")
			b.In("in").From(a.Out("o1"))
			vxRun(func() { wf.Run() })
		}
		vxEmitState("after failed run")
	case 5, 6: // a run killed right before a rename (natively: strace signal injection)
		if vxGet("report") == 0 {
			wf := mk()
			a := wf.NewProc("a", "vcmd w:{o:o1} x:extra.txt")
			a.SetOut("o1", "sub/a.txt")
			b := wf.NewProc("b", "vcmd r:{i:in} w:{o:out}")
			b.SetOut("out", "b.txt")
			b.In("in").From(a.Out("o1"))
			if scenario == 5 {
				vxKillAtDesc("-> extra.txt") // declared output already final, extra file not yet moved
			} else {
				vxKillAtDesc("-> sub/a.txt") // nothing final yet
			}
			vxRun(func() { wf.Run() })
		}
		vxEmitState("after kill")
	case 4: // splitter, concatenator, globber
		vxNVLines("lines.txt", []string{"l1", "l2", "l3", "l4", "l5"})
		wf := mk()
		src := NewFileSource(wf, "src", "lines.txt")
		sp := NewFileSplitter(wf, "split", 2)
		sp.InFile().From(src.Out())
		cc := NewConcatenator(wf, "cc", "out/all.txt")
		cc.In().From(sp.OutSplitFile())
		kind := vxRun(func() { wf.Run() })
		vxEmit("run " + kind)
		vxEmitState("after run")
		for _, f := range []string{"lines.txt.split_1", "lines.txt.split_3", "out/all.txt"} {
			vxEmit("content " + f + " = " + strings.Join(vxFileLines(f), "|"))
		}
	}
}
