// Code generated from zz_verif_vx.go by tools/gen_native.py; native bodies for replay. DO NOT EDIT.
package components

import (
	"encoding/json"
	"fmt"
	"os"
	"path/filepath"
	"strings"
	"time"
)

const (
	vxClassAny   = 0
	vxClassPath  = 1
	vxClassName  = 2
	vxClassValue = 3
	vxClassSmall = 4
	vxClassPrint = 5
	vxClassSmallWS = 6
)

const (
	vxAbsent = 0
	vxFile   = 1
	vxDir    = 2
	vxFifo   = 3
)

var vxPlan map[string]interface{}
var vxChoiceN int
var vxFailed bool

func vxLoadPlan() {
	if vxPlan != nil {
		return
	}
	vxPlan = map[string]interface{}{}
	b, err := os.ReadFile(os.Getenv("VX_PLAN"))
	if err != nil {
		fmt.Println("VXPLAN-MISSING", err)
		os.Exit(4)
	}
	if err := json.Unmarshal(b, &vxPlan); err != nil {
		fmt.Println("VXPLAN-BAD", err)
		os.Exit(4)
	}
}

func vxPlanStr(name string) string {
	vxLoadPlan()
	s, _ := vxPlan[name].(string)
	return s
}

func vxPlanInt(name string) int {
	vxLoadPlan()
	switch x := vxPlan[name].(type) {
	case float64:
		return int(x)
	case bool:
		if x {
			return 1
		}
	}
	return 0
}

// choices are recorded by the engine as name#<n> with a global counter; natively the
// next key with this name prefix in counter order is used
func vxPlanChoice(name string) int {
	vxLoadPlan()
	for i := vxChoiceN + 1; i < vxChoiceN+10000; i++ {
		k := fmt.Sprintf("%s#%d", name, i)
		if v, ok := vxPlan[k]; ok {
			vxChoiceN = i
			f, _ := v.(float64)
			return int(f)
		}
	}
	fmt.Println("VXPLAN-NOCHOICE", name)
	os.Exit(4)
	return 0
}

// vxReplayDone is called by the generated replay test after the harness returned.
func vxReplayDone() {
	if vxFailed {
		fmt.Println("VXRESULT FAIL")
		os.Exit(1)
	}
	fmt.Println("VXRESULT PASS")
}

var _ = filepath.Clean
var _ = strings.Contains

func vxStr(name string, max int, class int) string {
	return vxPlanStr(name)
}

func vxInt(name string, lo, hi int) int {
	return vxPlanInt(name)
}

func vxInt64(name string, lo, hi int64) int64 {
	return int64(vxPlanInt(name))
}

func vxBool(name string) bool {
	return vxPlanInt(name) != 0
}

func vxTime(name string, lo, hi int64) time.Time {
	if v := vxPlanInt(name); v != 0 { return time.Unix(0, int64(v)) }; return time.Time{}
}

func vxChoice(name string, n int) int {
	return vxPlanChoice(name)
}

func vxConcrete(v int) int {
	return v
}

func vxConcreteBool(b bool) bool {
	return b
}

func vxConcreteStr(s string) string {
	return s
}

func vxShape(s string, structural string) string {
	return s
}

func vxAssume(c bool) {
	if !c { fmt.Println("VXASSUME-FAILED"); os.Exit(3) }
}

func vxAssert(c bool, id string) {
	if !c { fmt.Println("VXFAIL " + id); vxFailed = true } else { fmt.Println("VXOK " + id) }
}

func vxKnown(c bool, id string) {
	if !c { fmt.Println("VXKNOWN " + id) } else { fmt.Println("VXOK " + id) }
}

func vxReach(id string) {
	fmt.Println("VXREACH " + id)
}

func vxNote(s string) {
	fmt.Println("VXNOTE " + s)
}

func vxEmit(s string) {
	fmt.Println("VXOUT " + s)
}

func vxListing() []string {
	var out []string; filepath.Walk(".", func(p string, fi os.FileInfo, err error) error { if p != "." { out = append(out, p) }; return nil }); return out
}

func vxNVFile(path string) {
	os.WriteFile(path, []byte("data\n"), 0644)
}

func vxNVLines(path string, lines []string) {
	os.WriteFile(path, []byte(strings.Join(lines, "\n")+"\n"), 0644)
}

func vxFileLines(path string) []string {
	b, err := os.ReadFile(path); if err != nil { return nil }; t := strings.TrimSuffix(string(b), "\n"); if t == "" { return nil }; return strings.Split(t, "\n")
}

func vxOr(a, b bool) bool {
	return a || b
}

func vxAnd(a, b bool) bool {
	return a && b
}

func vxNot(a bool) bool {
	return !a
}

func vxImplies(a, b bool) bool {
	return !a || b
}

func vxIte(c bool, a, b string) string {
	if c { return a }; return b
}

func vxCleanPath(s string) bool {
	return s != "" && filepath.Clean(s) == s
}

func vxContains(s, sub string) bool {
	return strings.Contains(s, sub)
}

func vxHasPrefix(s, p string) bool {
	return strings.HasPrefix(s, p)
}

func vxHasSuffix(s, p string) bool {
	return strings.HasSuffix(s, p)
}

func vxIsSym(s string) bool {
	return false
}

func vxRun(f func()) string {
	kind := "returned"; func() { defer func() { if r := recover(); r != nil { kind = "panic" } }(); f() }(); return kind
}

func vxRunMsg() string {
	return ""
}

func vxRunCode() int {
	return 0
}

func vxTraceChan(ch interface{}) {
	panic("vxTraceChan: environment-model function, not available in native replay")
}

func vxTraceMutex(p interface{}) {
	panic("vxTraceMutex: environment-model function, not available in native replay")
}

func vxTraceMark(s string) {
	panic("vxTraceMark: environment-model function, not available in native replay")
}

func vxBarrier(k int) {
	panic("vxBarrier: environment-model function, not available in native replay")
}

func vxTempPrefix() string {
	panic("vxTempPrefix: environment-model function, not available in native replay")
}

func vxFieldChan(obj interface{}, idx int) interface{} {
	panic("vxFieldChan: environment-model function, not available in native replay")
}

func vxChanCap(ch interface{}) int {
	panic("vxChanCap: environment-model function, not available in native replay")
}

func vxRaceLog(on bool) {
	panic("vxRaceLog: environment-model function, not available in native replay")
}

func vxRaceAnalyse() int {
	panic("vxRaceAnalyse: environment-model function, not available in native replay")
}

func vxRaceAnalyseAll() int {
	panic("vxRaceAnalyseAll: environment-model function, not available in native replay")
}

func vxYield() {
	
}

func vxPreemptBudget(n int) {
	
}

func vxPreemptAtFS(on bool) {
	
}

func vxMapOrder(funcs string) {
	
}

func vxMapOrderOff() {
	
}

func vxMapOrderReverse(b bool) {
	
}

func vxSetEnv(k, v string) {
	os.Setenv(k, v)
}

func vxTraceMode(on bool) {
	
}

func vxTraceStatSeq(seq string) {
	panic("vxTraceStatSeq: environment-model function, not available in native replay")
}

func vxTraceStatFork(on bool) {
	
}

func vxTraceStatRule(tmpdir string) {
	panic("vxTraceStatRule: environment-model function, not available in native replay")
}

func vxWalkExtra(path string) {
	panic("vxWalkExtra: environment-model function, not available in native replay")
}

func vxWalkExtraKind(kind int) {
	panic("vxWalkExtraKind: environment-model function, not available in native replay")
}

func vxClockSymbolic(on bool) {
	
}

func vxCmdFree(writes, exit bool) {
	
}

func vxKillAt(k int) {
	
}

func vxKillAtDesc(substr string) {
	
}

func vxOps() int {
	panic("vxOps: environment-model function, not available in native replay")
}

func vxFSPut(path string, kind int, id int) {
	panic("vxFSPut: environment-model function, not available in native replay")
}

func vxFSMkdirAll(path string) {
	panic("vxFSMkdirAll: environment-model function, not available in native replay")
}

func vxFSDelete(path string) {
	panic("vxFSDelete: environment-model function, not available in native replay")
}

func vxFSPutData(path string, data string) {
	panic("vxFSPutData: environment-model function, not available in native replay")
}

func vxFSPutLines(path string, lines []string) {
	panic("vxFSPutLines: environment-model function, not available in native replay")
}

func vxFSKind(path string) int {
	panic("vxFSKind: environment-model function, not available in native replay")
}

func vxFSIno(path string) int {
	panic("vxFSIno: environment-model function, not available in native replay")
}

func vxFSOrigin(path string) string {
	panic("vxFSOrigin: environment-model function, not available in native replay")
}

func vxFSInv(path string) int {
	panic("vxFSInv: environment-model function, not available in native replay")
}

func vxFSTarget(path string) string {
	panic("vxFSTarget: environment-model function, not available in native replay")
}

func vxFSComplete(path string) bool {
	panic("vxFSComplete: environment-model function, not available in native replay")
}

func vxFSPreID(path string) int {
	panic("vxFSPreID: environment-model function, not available in native replay")
}

func vxFSMTime(path string) int64 {
	panic("vxFSMTime: environment-model function, not available in native replay")
}

func vxFSData(path string) string {
	panic("vxFSData: environment-model function, not available in native replay")
}

func vxFSLines(path string) []string {
	panic("vxFSLines: environment-model function, not available in native replay")
}

func vxFSHasPartialLine(path string) bool {
	panic("vxFSHasPartialLine: environment-model function, not available in native replay")
}

func vxFSList(dir string) []string {
	panic("vxFSList: environment-model function, not available in native replay")
}

func vxFSRemoveTemp() {
	panic("vxFSRemoveTemp: environment-model function, not available in native replay")
}

func vxFSRemoveTempDirsOnly() {
	panic("vxFSRemoveTempDirsOnly: environment-model function, not available in native replay")
}

func vxEvCount() int {
	panic("vxEvCount: environment-model function, not available in native replay")
}

func vxEvOp(i int) string {
	panic("vxEvOp: environment-model function, not available in native replay")
}

func vxEvArg(i, k int) string {
	panic("vxEvArg: environment-model function, not available in native replay")
}

func vxEvArgInt(i, k int) int {
	panic("vxEvArgInt: environment-model function, not available in native replay")
}

func vxInvCount() int {
	panic("vxInvCount: environment-model function, not available in native replay")
}

func vxInvCmd(i int) string {
	panic("vxInvCmd: environment-model function, not available in native replay")
}

func vxInvOK(i int) bool {
	panic("vxInvOK: environment-model function, not available in native replay")
}

func vxInvEnded(i int) bool {
	panic("vxInvEnded: environment-model function, not available in native replay")
}

func vxInvRun(i int) int {
	panic("vxInvRun: environment-model function, not available in native replay")
}

func vxInvReadCount(i int) int {
	panic("vxInvReadCount: environment-model function, not available in native replay")
}

func vxInvReadPath(i, k int) string {
	panic("vxInvReadPath: environment-model function, not available in native replay")
}

func vxInvReadPreID(i, k int) int {
	panic("vxInvReadPreID: environment-model function, not available in native replay")
}

func vxInvReadInv(i, k int) int {
	panic("vxInvReadInv: environment-model function, not available in native replay")
}

func vxRunID() int {
	panic("vxRunID: environment-model function, not available in native replay")
}

func vxChanLen(ch interface{}) int {
	panic("vxChanLen: environment-model function, not available in native replay")
}

func vxBlockedCount() int {
	panic("vxBlockedCount: environment-model function, not available in native replay")
}

func vxSet(k string, v int) {
	
}

func vxGet(k string) int {
	return vxPlanInt("param." + k)
}
