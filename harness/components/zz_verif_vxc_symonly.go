package components

import "github.com/scipipe/scipipe"

// vxReadAudit reads an audit record straight from the model file system (independent of
// scipipe's own reader).
func vxReadAudit(path string) *scipipe.AuditInfo
