package components

import (
	"strings"

	"github.com/scipipe/scipipe"
)

// C10 / C11: every finalized output carries a complete and faithful audit record, and the
// lineage survives resuming. Real workflows built through the public API and run by the
// real Workflow.Run on the environment model; the audit files are read back with the
// real UnmarshalAuditInfoJSONFile.

func vxAudit(path string) *scipipe.AuditInfo {
	return scipipe.UnmarshalAuditInfoJSONFile(path + ".audit.json")
}

// vxSameRecord: deep equality of two audit records (all fields, recursively).
func vxSameRecord(x, y *scipipe.AuditInfo, withIDsAndTimes bool) bool {
	if x == nil || y == nil {
		return x == y
	}
	ok := x.ProcessName == y.ProcessName && x.Command == y.Command
	if withIDsAndTimes {
		ok = ok && x.ID == y.ID && vxConcreteBool(x.StartTime.Equal(y.StartTime)) && vxConcreteBool(x.FinishTime.Equal(y.FinishTime)) && vxConcreteBool(x.ExecTimeNS == y.ExecTimeNS)
	}
	ok = ok && vxSameMap(x.Params, y.Params) && vxSameMap(x.Tags, y.Tags) && vxSameMap(x.OutFiles, y.OutFiles)
	if len(x.Upstream) != len(y.Upstream) {
		return false
	}
	for k, ux := range x.Upstream {
		uy, has := y.Upstream[k]
		if !has || !vxSameRecord(ux, uy, withIDsAndTimes) {
			return false
		}
	}
	return ok
}

func vxSameMap(a, b map[string]string) bool {
	if len(a) != len(b) {
		return false
	}
	for k, v := range a {
		if w, ok := b[k]; !ok || w != v {
			return false
		}
	}
	return true
}

type vxWF10 struct {
	wf *scipipe.Workflow
}

// vxBuild10: two tagged sources, a two-input merge with a parameter, a final step.
//   in1.txt -> tag1 (k1=v1) \
//                             merge (p=7) -> m.txt -> fin -> f.txt
//   in2.txt -> tag2 (k2=v2) /
func vxBuild10(upTo string) *scipipe.Workflow {
	wf := scipipe.NewWorkflowCustomLogFile("w", 4, "log/w.log")
	src1 := NewFileSource(wf, "src1", "in1.txt")
	src2 := NewFileSource(wf, "src2", "in2.txt")
	tag1 := NewMapToTags(wf, "tag1", func(ip *scipipe.FileIP) map[string]string { return map[string]string{"k1": "v1"} })
	tag2 := NewMapToTags(wf, "tag2", func(ip *scipipe.FileIP) map[string]string { return map[string]string{"k2": "v2"} })
	tag1.In().From(src1.Out())
	tag2.In().From(src2.Out())
	merge := wf.NewProc("merge", "vcmd r:{i:a} r:{i:b} w:{o:out} w:{o:side} # {p:p}")
	if vxGet("prepend") == 1 {
		merge.Prepend = "vcmd x:pre.txt &&" // e.g. a job-scheduler or environment prefix
	}
	merge.SetOut("out", "m.txt")
	merge.SetOut("side", "side.txt")
	merge.In("a").From(tag1.Out())
	merge.In("b").From(tag2.Out())
	merge.InParam("p").FromStr("7")
	finPat := "vcmd r:{i:in} w:{o:out}"
	if vxGet("diamond") == 1 {
		// both outputs of merge feed fin: the merge record reaches f.txt along two paths
		finPat = "vcmd r:{i:in} r:{i:in2} w:{o:out}"
	}
	fin := wf.NewProc("fin", finPat)
	fin.SetOut("out", vxFinPath())
	fin.In("in").From(merge.Out("out"))
	if vxGet("diamond") == 1 {
		fin.In("in2").From(merge.Out("side"))
	}
	return wf
}

// vxFinPath: the final output's path shape (plain / relative to the parent / absolute).
func vxFinPath() string {
	switch vxGet("shape") {
	case 1:
		vxFSMkdirAll("/up")
		return "../up/f.txt"
	case 2:
		vxFSMkdirAll("/abs/d")
		return "/abs/d/f.txt"
	}
	return "f.txt"
}

func vxMergeCmd() string {
	c := "vcmd r:../in1.txt r:../in2.txt w:m.txt w:side.txt # 7"
	if vxGet("prepend") == 1 {
		c = "vcmd x:pre.txt && " + c
	}
	return c
}

// vxExecuted: the command text was really handed to the shell (between `cd <tmp> &&` and
// `&& cd ..`) in this history.
func vxExecuted(cmd string) bool {
	for i := 0; i < vxEvCount(); i++ {
		if vxEvOp(i) == "exec" && strings.HasSuffix(vxEvArg(i, 0), " && "+cmd+" && cd ..") && strings.HasPrefix(vxEvArg(i, 0), "cd ") {
			return true
		}
	}
	return false
}

func vxHasAll(s string, parts ...string) bool {
	for _, p := range parts {
		if !strings.Contains(s, p) {
			return false
		}
	}
	return true
}

func vxCheckMergeRecord(r *scipipe.AuditInfo, id string) {
	vxAssert(r.ProcessName == "merge", id+".process-name")
	// the exact command that was executed (not a particular spelling of it): the record's
	// text was handed to the shell, and it names everything the pattern says
	okCmd := vxExecuted(r.Command) && vxHasAll(r.Command, "vcmd ", "in1.txt", "in2.txt", "m.txt", "side.txt", "# 7")
	if vxGet("prepend") == 1 {
		okCmd = okCmd && strings.HasPrefix(r.Command, "vcmd x:pre.txt &&")
	}
	vxAssert(okCmd, id+".command")
	vxAssert(len(r.Params) == 1 && r.Params["p"] == "7", id+".params")
	vxAssert(len(r.OutFiles) == 2 && r.OutFiles["out"] == "m.txt" && r.OutFiles["side"] == "side.txt", id+".outfiles")
	vxAssert(r.Tags["k1"] == "v1" && r.Tags["k2"] == "v2", id+".upstream-tags-present")
	vxAssert(vxNot(r.FinishTime.Before(r.StartTime)), id+".start-before-finish")
	vxAssert(vxAnd(r.ExecTimeNS == r.FinishTime.Sub(r.StartTime), r.ExecTimeNS >= 0), id+".duration")
	vxAssert(len(r.Upstream) == 2, id+".upstream-keys")
	u1, u2 := r.Upstream["in1.txt"], r.Upstream["in2.txt"]
	vxAssert(u1 != nil && u2 != nil, id+".upstream-keys")
	if u1 != nil && u2 != nil {
		vxAssert(u1.Tags["k1"] == "v1" && u2.Tags["k2"] == "v2", id+".source-tags")
		vxAssert(len(u1.Upstream) == 0 && len(u2.Upstream) == 0, id+".sources-are-roots")
		// an embedded ancestor record is the ancestor's own record: exactly its tags, and
		// identical to the record next to the ancestor's file
		vxAssert(len(u1.Tags) == 1 && len(u2.Tags) == 1, id+".source-tags-exact")
		vxAssert(vxSameRecord(u1, vxAudit("in1.txt"), true) && vxSameRecord(u2, vxAudit("in2.txt"), true), id+".source-record-identical-to-disk")
	}
}

func VxH10() {
	vxClockSymbolic(true)
	vxCmdFree(false, false)
	vxFSPut("in1.txt", vxFile, 1)
	vxFSPut("in2.txt", vxFile, 2)
	vxMapOrder("writeAuditLogs,createTasks,AddTags")
	wf := vxBuild10("")
	kind := vxRun(func() { wf.Run() })
	vxAssert(kind == "returned", "C10.run-completes")
	vxReach("ran")
	// every finalized output has its record
	fp := vxFinPath()
	for _, o := range []string{"m.txt", "side.txt", fp} {
		vxAssert(vxFSKind(o) == vxFile && vxFSKind(o+".audit.json") == vxFile, "C10.every-output-has-a-record")
	}
	m, side, f := vxAudit("m.txt"), vxAudit("side.txt"), vxAudit(fp)
	vxCheckMergeRecord(m, "C10.merge")
	vxAssert(vxSameRecord(m, side, true), "C10.same-record-next-to-every-output")
	vxAssert(f.ProcessName == "fin", "C10.fin.process-name")
	vxAssert(vxExecuted(f.Command) && vxHasAll(f.Command, "vcmd ", "m.txt", "f.txt"), "C10.fin.command")
	vxAssert(f.Tags["k1"] == "v1" && f.Tags["k2"] == "v2", "C10.fin.upstream-tags-present")
	vxAssert(vxNot(f.FinishTime.Before(f.StartTime)), "C10.fin.start-before-finish")
	if vxGet("diamond") == 1 {
		vxAssert(len(f.Upstream) == 2 && f.Upstream["m.txt"] != nil && f.Upstream["side.txt"] != nil, "C10.fin.upstream-keys")
		if f.Upstream["side.txt"] != nil {
			// the same ancestor reached along a second path is embedded in full again
			vxAssert(vxSameRecord(f.Upstream["side.txt"], side, true), "C10.fin.upstream-is-the-producers-record")
			vxCheckMergeRecord(f.Upstream["side.txt"], "C10.fin.upstream2")
		}
	} else {
		vxAssert(len(f.Upstream) == 1 && f.Upstream["m.txt"] != nil, "C10.fin.upstream-keys")
	}
	if f.Upstream["m.txt"] != nil {
		// the full record of the input, identical to the one on disk, recursively
		vxAssert(vxSameRecord(f.Upstream["m.txt"], m, true), "C10.fin.upstream-is-the-producers-record")
		vxCheckMergeRecord(f.Upstream["m.txt"], "C10.fin.upstream")
	}
	// the commands recorded are the commands executed
	vxAssert(vxExecuted(m.Command) && vxExecuted(f.Command), "C10.recorded-command-is-executed-command")
}

// VxH11: provenance survives restarts. The same workflow (i) in one go and (ii) split:
// RunTo("merge") first, then a new program run of the whole workflow that takes m.txt
// from disk; and (iii) complete run, delete f.txt, run again.
func VxH11() {
	mode := vxGet("mode")
	vxCmdFree(false, false)
	vxFSPut("in1.txt", vxFile, 1)
	vxFSPut("in2.txt", vxFile, 2)
	vxMapOrder("writeAuditLogs,createTasks")
	switch mode {
	case 0: // partial run with RunTo, then full run
		wf1 := vxBuild10("")
		k1 := vxRun(func() { wf1.RunTo("merge") })
		vxAssert(k1 == "returned", "C11.partial-run-completes")
		vxAssert(vxFSKind("f.txt") == vxAbsent, "C11.partial-run-stops-at-target")
	case 1: // full run, downstream output deleted
		wf1 := vxBuild10("")
		k1 := vxRun(func() { wf1.Run() })
		vxAssert(k1 == "returned", "C11.first-run-completes")
		vxFSDelete("f.txt")
		vxFSDelete("f.txt.audit.json")
	case 3: // several runs in one program: run; delete f; run; delete m, side, f; run; delete f
		del := func(ps ...string) {
			for _, p := range ps {
				vxFSDelete(p)
				vxFSDelete(p + ".audit.json")
			}
		}
		for step := 0; step < 3; step++ {
			wfi := vxBuild10("")
			ki := vxRun(func() { wfi.Run() })
			vxAssert(ki == "returned", "C11.first-run-completes")
			if step == 1 {
				del("m.txt", "side.txt", "f.txt")
			} else {
				del("f.txt")
			}
		}
	case 2: // run killed at a symbolic point, temp dirs removed
		wf1 := vxBuild10("")
		vxKillAt(vxInt("k1", 0, vxGet("N")))
		k1 := vxRun(func() { wf1.Run() })
		vxAssume(k1 == "killed")
		vxKillAt(-1)
		vxFSRemoveTemp()
	}
	mBefore := vxFSKind("m.txt") == vxFile && vxFSKind("side.txt") == vxFile
	var onDisk *scipipe.AuditInfo
	if mBefore {
		onDisk = vxReadAudit("m.txt")
	}
	// KF-C03-2 (listed): MapToTags rewrites the audit file of an existing file in place; a
	// kill between truncation and write leaves an empty record, which every later run
	// refuses to load
	truncated := false
	for _, src := range []string{"in1.txt", "in2.txt"} {
		if vxFSKind(src+".audit.json") == vxFile && vxReadAudit(src) == nil {
			truncated = true
		}
	}
	n1 := vxInvCount()
	fBefore := vxFSKind("f.txt") == vxFile
	wf2 := vxBuild10("")
	k2 := vxRun(func() { wf2.Run() })
	if truncated {
		vxKnown(k2 == "returned", "KF-C03-2")
		return
	}
	if mode == 2 && (vxFSKind("m.txt") == vxFile) != (vxFSKind("side.txt") == vxFile) && k2 != "returned" {
		return // KF-C03-1 territory (two outputs, killed between the renames); see C03
	}
	vxAssert(k2 == "returned", "C11.resumed-run-completes")
	vxReach("resumed")
	f := vxReadAudit("f.txt")
	m := vxReadAudit("m.txt")
	vxAssert(f != nil && m != nil, "C11.records-on-disk")
	if f == nil || m == nil {
		return
	}
	if mode == 3 {
		// m.txt was recomputed by an earlier run of this program: what the new record of
		// f.txt embeds must be the record that is on disk now
		if f.Upstream["m.txt"] != nil {
			vxAssert(vxSameRecord(f.Upstream["m.txt"], m, true), "C11.ancestor-record-identical-to-disk")
		}
	}
	if mBefore {
		want := n1 + 1
		if fBefore {
			want = n1
		}
		vxAssert(vxInvCount() == want, "C11.upstream-not-recomputed")
		vxAssert(vxSameRecord(m, onDisk, true), "C11.ancestor-record-on-disk-unchanged")
		if f.Upstream["m.txt"] != nil {
			vxAssert(vxSameRecord(f.Upstream["m.txt"], onDisk, true), "C11.ancestor-record-identical-to-disk")
		}
	}
	// same lineage as an uninterrupted run (IDs and times of re-executed tasks aside)
	vxAssert(f.ProcessName == "fin" && vxExecuted(f.Command) && vxHasAll(f.Command, "vcmd ", "m.txt", "f.txt"), "C11.new-record-faithful")
	vxAssert(len(f.Upstream) == 1 && f.Upstream["m.txt"] != nil, "C11.lineage-present")
	if f.Upstream["m.txt"] != nil {
		vxCheckMergeRecord(f.Upstream["m.txt"], "C11.lineage")
	}
	vxAssert(f.Tags["k1"] == "v1" && f.Tags["k2"] == "v2", "C11.tags-survive")
}


// VxH10kill: at every instant (kill before any file-system effect), an output file that
// is present at its final path is accompanied by its audit record.
func VxH10kill() {
	vxCmdFree(false, false)
	vxFSPut("in1.txt", vxFile, 1)
	vxFSPut("in2.txt", vxFile, 2)
	vxMapOrder("finalizePaths")
	wf := vxBuild10("")
	vxKillAt(vxInt("k", 0, vxGet("N")))
	kind := vxRun(func() { wf.Run() })
	vxAssume(kind == "killed")
	vxReach("killed")
	for o, proc := range map[string]string{"m.txt": "merge", "side.txt": "merge", "f.txt": "fin"} {
		if vxFSKind(o) == vxFile {
			vxAssert(vxFSKind(o+".audit.json") == vxFile, "C10.finalized-output-always-has-its-record")
			if vxFSKind(o+".audit.json") == vxFile {
				vxAssert(vxAudit(o).ProcessName == proc, "C10.finalized-output-always-has-its-record")
			}
		}
	}
}


// VxH03tag: restart after a crash for a workflow with a tagging component and a
// Concatenator (components that write to final locations themselves).
func VxH03tag() {
	vxCmdFree(false, false)
	build := func() *scipipe.Workflow {
		wf := scipipe.NewWorkflowCustomLogFile("w", 4, "log/w.log")
		src := NewFileSource(wf, "src", "in1.txt", "in2.txt")
		tg := NewMapToTags(wf, "tag", func(ip *scipipe.FileIP) map[string]string { return map[string]string{"k": "v"} })
		tg.In().From(src.Out())
		p := wf.NewProc("p", "vcmd r:{i:in} w:{o:out}")
		p.SetOut("out", "{i:in}.p")
		p.In("in").From(tg.Out())
		cc := NewConcatenator(wf, "cc", "all.txt")
		cc.In().From(p.Out("out"))
		return wf
	}
	vxFSPutData("in1.txt", "one")
	vxFSPutData("in2.txt", "two")
	vxKillAt(vxInt("k1", 0, vxGet("N")))
	k1 := vxRun(func() { build().Run() })
	vxAssume(k1 == "killed")
	vxKillAt(-1)
	vxFSRemoveTemp()
	truncated := false
	for _, src := range []string{"in1.txt", "in2.txt"} {
		if vxFSKind(src+".audit.json") == vxFile && vxReadAudit(src) == nil {
			truncated = true
		}
	}
	k2 := vxRun(func() { build().Run() })
	vxReach("reran")
	if truncated {
		vxKnown(k2 == "returned", "KF-C03-2")
		return
	}
	vxAssert(k2 == "returned", "C03.tag.restart-completes")
	for _, o := range []string{"in1.txt.p", "in2.txt.p"} {
		vxAssert(vxFSKind(o) == vxFile && vxFSOrigin(o) == "cmd", "C03.tag.converges")
	}
	// the concatenation holds one line per input (the command model's files carry no
	// lines; what matters here is that the component did its work again: two lines)
	vxAssert(len(vxFSLines("all.txt")) == 2 && !vxFSHasPartialLine("all.txt"), "C03.tag.component-output-complete")
}

// VxH03split: restart after a crash for a workflow with a FileSplitter (a component that
// writes its outputs itself and skips its work when they exist).
func VxH03split() {
	vxCmdFree(false, false)
	build := func() *scipipe.Workflow {
		wf := scipipe.NewWorkflowCustomLogFile("w", 4, "log/w.log")
		src := NewFileSource(wf, "src", "lines.txt")
		sp := NewFileSplitter(wf, "split", 2)
		sp.InFile().From(src.Out())
		c := wf.NewProc("c", "vcmd r:{i:in} w:{o:out}")
		c.SetOut("out", "{i:in}.c.txt")
		c.In("in").From(sp.OutSplitFile())
		return wf
	}
	vxFSPutLines("lines.txt", []string{"l1", "l2", "l3"})
	vxKillAt(vxInt("k1", 0, vxGet("N")))
	k1 := vxRun(func() { build().Run() })
	vxAssume(k1 == "killed")
	vxKillAt(-1)
	vxFSRemoveTemp()
	// KF-C03-3 (listed): once the first part exists the splitter skips its whole input and
	// forwards nothing, so nothing downstream of it is ever produced by a re-run
	firstPartThere := vxFSKind("lines.txt.split_1") == vxFile
	k2 := vxRun(func() { build().Run() })
	vxReach("reran")
	vxAssert(k2 == "returned", "C03.split.restart-completes")
	// what an uninterrupted run yields: both parts and the consumer's output for each
	ok := true
	for _, o := range []string{"lines.txt.split_1", "lines.txt.split_2", "lines.txt.split_1.c.txt", "lines.txt.split_2.c.txt"} {
		if vxFSKind(o) != vxFile {
			ok = false
		}
	}
	if firstPartThere {
		vxKnown(ok, "KF-C03-3")
		return
	}
	vxAssert(ok, "C03.split.converges")
}
