package components

import (
	"github.com/scipipe/scipipe"
)

// C08: outputs leave a process in the order its inputs arrived, whatever the order in which
// the parallel tasks finish. FileSource(n files) -> command process -> recorder component;
// the schedule (which runnable goroutine goes next) is chosen by the solver at up to
// `preempt` points; outputs of some later inputs may pre-exist (their tasks are skipped).

type vxRecorder struct {
	scipipe.BaseProcess
	got []string
}

func vxNewRecorder(wf *scipipe.Workflow, name string) *vxRecorder {
	p := &vxRecorder{BaseProcess: scipipe.NewBaseProcess(wf, name)}
	p.InitInPort(p, "in")
	p.InitOutPort(p, "done") // several recorders in one workflow: none of them may be a port-less driver
	wf.AddProc(p)
	return p
}

func (p *vxRecorder) Run() {
	defer p.CloseAllOutPorts()
	for ip := range p.InPort("in").Chan {
		p.got = append(p.got, ip.Path())
	}
}

func VxH08() {
	n := vxGet("n")
	vxCmdFree(false, false)
	vxSetEnv("SCIPIPE_BUFSIZE", string(rune('0'+vxGet("bufsize"))))
	wf := scipipe.NewWorkflowCustomLogFile("w", 4, "log/w.log")
	files := []string{}
	for i := 0; i < n; i++ {
		f := "f" + string(rune('0'+i)) + ".txt"
		files = append(files, f)
		vxFSPut(f, vxFile, i+1)
	}
	src := NewFileSource(wf, "src", files...)
	p := wf.NewProc("p", "vcmd r:{i:in} w:{o:out}")
	p.SetOut("out", "{i:in}.out")
	p.In("in").From(src.Out())
	rec := vxNewRecorder(wf, "rec")
	rec.InPort("in").From(p.Out("out"))
	// outputs of later inputs may already exist (re-run of a partly completed workflow)
	for i := 1; i < n; i++ {
		if vxConcreteBool(vxBool("pre" + string(rune('0'+i)))) {
			vxFSPut(files[i]+".out", vxFile, 100+i)
		}
	}
	vxPreemptBudget(vxGet("preempt"))
	kind := vxRun(func() { wf.Run() })
	vxAssert(kind == "returned", "C08.run-returns")
	vxReach("ran")
	vxAssert(len(rec.got) == n, "C08.every-output-forwarded-once")
	for i := range rec.got {
		if i < n {
			vxAssert(rec.got[i] == files[i]+".out", "C08.arrival-order-kept")
		}
	}
}

// VxH08stream: the same through a process with a streaming output (followed by an ordinary
// consumer): items leave in arrival order also when a regular file already lies at the
// streaming output path of a later item.
func VxH08stream() {
	n := vxGet("n")
	vxCmdFree(false, false)
	vxSetEnv("SCIPIPE_BUFSIZE", "1")
	wf := scipipe.NewWorkflowCustomLogFile("w", 4, "log/w.log")
	files := []string{}
	for i := 0; i < n; i++ {
		f := "f" + string(rune('0'+i)) + ".txt"
		files = append(files, f)
		vxFSPut(f, vxFile, i+1)
	}
	src := NewFileSource(wf, "src", files...)
	p := wf.NewProc("p", "vcmd r:{i:in} w:{os:out}")
	p.SetOut("out", "{i:in}.s")
	p.In("in").From(src.Out())
	c := wf.NewProc("c", "vcmd r:{i:in} w:{o:out}")
	c.SetOut("out", "{i:in|basename}.c")
	c.In("in").From(p.Out("out"))
	rec := vxNewRecorder(wf, "rec")
	rec.InPort("in").From(c.Out("out"))
	for i := 1; i < n; i++ {
		if vxConcreteBool(vxBool("pre" + string(rune('0'+i)))) {
			vxFSPut(files[i]+".s", vxFile, 100+i)
		}
	}
	vxPreemptBudget(vxGet("preempt"))
	kind := vxRun(func() { wf.Run() })
	vxAssert(kind == "returned", "C08.run-returns")
	vxReach("ran")
	vxAssert(len(rec.got) == n, "C08.every-output-forwarded-once")
	for i := range rec.got {
		if i < n {
			vxAssert(rec.got[i] == files[i]+".s.c", "C08.arrival-order-kept")
		}
	}
}

// vxCarrierSrc sends two carrier IPs whose sub-streams are filled and closed in the
// opposite order.
type vxCarrierSrc struct {
	scipipe.BaseProcess
}

func (p *vxCarrierSrc) Run() {
	defer p.CloseAllOutPorts()
	c1, _ := scipipe.NewFileIP("carrierA")
	c2, _ := scipipe.NewFileIP("carrierB")
	p.OutPort("out").Send(c1)
	p.OutPort("out").Send(c2)
	m2, _ := scipipe.NewFileIP("mB.txt")
	c2.SubStream.Send(m2)
	close(c2.SubStream.Chan)
	vxYield()
	m1, _ := scipipe.NewFileIP("mA.txt")
	c1.SubStream.Send(m1)
	close(c1.SubStream.Chan)
}

// VxH08join: a process with a joined (sub-stream) in-port emits its outputs in the order
// the carrier IPs arrived, also when the sub-stream of a later carrier is complete first.
func VxH08join() {
	vxCmdFree(false, false)
	vxSetEnv("SCIPIPE_BUFSIZE", "2")
	wf := scipipe.NewWorkflowCustomLogFile("w", 4, "log/w.log")
	vxFSPut("mA.txt", vxFile, 1)
	vxFSPut("mB.txt", vxFile, 2)
	cs := &vxCarrierSrc{BaseProcess: scipipe.NewBaseProcess(wf, "carriers")}
	cs.InitOutPort(cs, "out")
	wf.AddProc(cs)
	j := wf.NewProc("j", "vcmd r:{i:in|join: r:} w:{o:out}")
	j.SetOut("out", "{i:in}.j.txt")
	j.In("in").From(cs.OutPort("out"))
	rec := vxNewRecorder(wf, "rec")
	rec.InPort("in").From(j.Out("out"))
	vxPreemptBudget(vxGet("preempt"))
	kind := vxRun(func() { wf.Run() })
	vxAssert(kind == "returned", "C08.run-returns")
	vxReach("ran")
	vxAssert(len(rec.got) == 2, "C08.every-output-forwarded-once")
	if len(rec.got) == 2 {
		vxAssert(rec.got[0] == "carrierA.j.txt" && rec.got[1] == "carrierB.j.txt", "C08.arrival-order-kept")
	}
}

// VxH08fanin: items that reach one in-port from the same upstream keep their relative
// order through fan-in (two sources into one port).
func VxH08fanin() {
	vxCmdFree(false, false)
	vxSetEnv("SCIPIPE_BUFSIZE", "1")
	wf := scipipe.NewWorkflowCustomLogFile("w", 4, "log/w.log")
	for _, f := range []string{"a0", "a1", "a2", "b0", "b1"} {
		vxFSPut(f, vxFile, 1)
	}
	s1 := NewFileSource(wf, "s1", "a0", "a1", "a2")
	s2 := NewFileSource(wf, "s2", "b0", "b1")
	rec := vxNewRecorder(wf, "rec")
	rec.InPort("in").From(s1.Out())
	rec.InPort("in").From(s2.Out())
	vxPreemptBudget(vxGet("preempt"))
	kind := vxRun(func() { wf.Run() })
	vxAssert(kind == "returned", "C08.fanin.run-returns")
	vxReach("ran")
	vxAssert(len(rec.got) == 5, "C08.fanin.all-delivered-once")
	la, lb := "", ""
	for _, g := range rec.got {
		if g[0] == 'a' {
			vxAssert(la < g, "C08.fanin.per-upstream-order-kept")
			la = g
		} else {
			vxAssert(lb < g, "C08.fanin.per-upstream-order-kept")
			lb = g
		}
	}
}

// VxH02glob: a dependent file globber waits for ALL of its upstream before it globs: the
// first run produces a downstream output for every upstream file, and running the same
// workflow again executes nothing.
func VxH02glob() {
	vxCmdFree(false, false)
	vxSetEnv("SCIPIPE_BUFSIZE", "1")
	build := func() *scipipe.Workflow {
		wf := scipipe.NewWorkflowCustomLogFile("w", 4, "log/w.log")
		u := wf.NewProc("u", "vcmd w:{o:out} n:{p:x}")
		u.SetOut("out", "data/{p:x}.up.txt")
		u.InParam("x").FromStr("a", "b", "c")
		gl := NewFileGlobberDependent(wf, "glob", "data/*.up.txt")
		gl.InDependency().From(u.Out("out"))
		d := wf.NewProc("d", "vcmd r:{i:in} w:{o:out}")
		d.SetOut("out", "{i:in}.d.txt")
		d.In("in").From(gl.Out())
		return wf
	}
	vxPreemptBudget(vxGet("preempt"))
	k1 := vxRun(func() { build().Run() })
	vxAssert(k1 == "returned", "C02.glob.first-run-completes")
	vxReach("ran")
	for _, x := range []string{"a", "b", "c"} {
		vxAssert(vxFSKind("data/"+x+".up.txt.d.txt") == vxFile, "C04.glob.every-upstream-file-processed")
	}
	n1 := vxInvCount()
	vxPreemptBudget(0)
	k2 := vxRun(func() { build().Run() })
	vxAssert(k2 == "returned", "C02.glob.second-run-completes")
	vxAssert(vxInvCount() == n1, "C02.rerun-executes-nothing")
}

// VxH07rerun: re-running a completed workflow that contains a FileSplitter (which skips
// its work when the split files exist): components that skip existing work leave the task
// slots alone, so a task of another process that needs every slot still gets them.
func VxH07rerun() {
	vxCmdFree(false, false)
	max := vxConcrete(vxInt("max", 1, 2))
	vxFSPutLines("lines.txt", []string{"l1", "l2", "l3", "l4"})
	build := func(withLate bool) *scipipe.Workflow {
		wf := scipipe.NewWorkflowCustomLogFile("w", max, "log/w.log")
		src := NewFileSource(wf, "src", "lines.txt")
		sp := NewFileSplitter(wf, "split", 2)
		sp.InFile().From(src.Out())
		c := wf.NewProc("c", "vcmd r:{i:in} w:{o:out}")
		c.SetOut("out", "{i:in}.c.txt")
		c.In("in").From(sp.OutSplitFile())
		if withLate {
			late := wf.NewProc("late", "vcmd w:{o:out} n:{p:x}")
			late.SetOut("out", "late_{p:x}.txt")
			late.CoresPerTask = max
			late.InParam("x").FromStr("1", "2")
		}
		return wf
	}
	k1 := vxRun(func() { build(false).Run() })
	vxAssert(k1 == "returned", "C07.rerun.first-run-completes")
	vxPreemptBudget(vxGet("preempt"))
	k2 := vxRun(func() { build(true).Run() })
	vxReach("ran")
	vxAssert(k2 == "returned", "C07.rerun.tasks-waiting-for-slots-run")
	vxAssert(vxFSKind("late_1.txt") == vxFile && vxFSKind("late_2.txt") == vxFile, "C07.rerun.tasks-waiting-for-slots-run")
}
