package components

import (
	"github.com/scipipe/scipipe"
)

// C08: outputs leave a process in the order its inputs arrived, whatever the order in which
// the parallel tasks finish. FileSource(n files) -> command process -> recorder component;
// the schedule (which runnable goroutine goes next) is chosen by the solver at up to
// `preempt` points; outputs of some later inputs may pre-exist (their tasks are skipped).

type vxRecorder struct {
	scipipe.BaseProcess
	got []string
}

func vxNewRecorder(wf *scipipe.Workflow, name string) *vxRecorder {
	p := &vxRecorder{BaseProcess: scipipe.NewBaseProcess(wf, name)}
	p.InitInPort(p, "in")
	p.InitOutPort(p, "done") // several recorders in one workflow: none of them may be a port-less driver
	wf.AddProc(p)
	return p
}

func (p *vxRecorder) Run() {
	defer p.CloseAllOutPorts()
	for ip := range p.InPort("in").Chan {
		p.got = append(p.got, ip.Path())
	}
}

func VxH08() {
	n := vxGet("n")
	vxCmdFree(false, false)
	vxSetEnv("SCIPIPE_BUFSIZE", string(rune('0'+vxGet("bufsize"))))
	wf := scipipe.NewWorkflowCustomLogFile("w", 4, "log/w.log")
	files := []string{}
	for i := 0; i < n; i++ {
		f := "f" + string(rune('0'+i)) + ".txt"
		files = append(files, f)
		vxFSPut(f, vxFile, i+1)
	}
	src := NewFileSource(wf, "src", files...)
	p := wf.NewProc("p", "vcmd r:{i:in} w:{o:out}")
	p.SetOut("out", "{i:in}.out")
	p.In("in").From(src.Out())
	rec := vxNewRecorder(wf, "rec")
	rec.InPort("in").From(p.Out("out"))
	// outputs of later inputs may already exist (re-run of a partly completed workflow)
	for i := 1; i < n; i++ {
		if vxConcreteBool(vxBool("pre" + string(rune('0'+i)))) {
			vxFSPut(files[i]+".out", vxFile, 100+i)
		}
	}
	vxPreemptBudget(vxGet("preempt"))
	kind := vxRun(func() { wf.Run() })
	vxAssert(kind == "returned", "C08.run-returns")
	vxReach("ran")
	vxAssert(len(rec.got) == n, "C08.every-output-forwarded-once")
	for i := range rec.got {
		if i < n {
			vxAssert(rec.got[i] == files[i]+".out", "C08.arrival-order-kept")
		}
	}
}

// VxH08fanin: items that reach one in-port from the same upstream keep their relative
// order through fan-in (two sources into one port).
func VxH08fanin() {
	vxCmdFree(false, false)
	vxSetEnv("SCIPIPE_BUFSIZE", "1")
	wf := scipipe.NewWorkflowCustomLogFile("w", 4, "log/w.log")
	for _, f := range []string{"a0", "a1", "a2", "b0", "b1"} {
		vxFSPut(f, vxFile, 1)
	}
	s1 := NewFileSource(wf, "s1", "a0", "a1", "a2")
	s2 := NewFileSource(wf, "s2", "b0", "b1")
	rec := vxNewRecorder(wf, "rec")
	rec.InPort("in").From(s1.Out())
	rec.InPort("in").From(s2.Out())
	vxPreemptBudget(vxGet("preempt"))
	kind := vxRun(func() { wf.Run() })
	vxAssert(kind == "returned", "C08.fanin.run-returns")
	vxReach("ran")
	vxAssert(len(rec.got) == 5, "C08.fanin.all-delivered-once")
	la, lb := "", ""
	for _, g := range rec.got {
		if g[0] == 'a' {
			vxAssert(la < g, "C08.fanin.per-upstream-order-kept")
			la = g
		} else {
			vxAssert(lb < g, "C08.fanin.per-upstream-order-kept")
			lb = g
		}
	}
}
