package components

import (
	"sort"
	"strings"

	"github.com/scipipe/scipipe"
)

// C19: the bundled components compute what they advertise. Every component runs inside a
// real workflow (sources -> component -> recorder components) driven by the real
// Workflow.Run on the environment model.

type vxParamRecorder struct {
	scipipe.BaseProcess
	got []string
}

func vxNewParamRecorder(wf *scipipe.Workflow, name string) *vxParamRecorder {
	p := &vxParamRecorder{BaseProcess: scipipe.NewBaseProcess(wf, name)}
	p.InitInParamPort(p, "in")
	p.InitOutPort(p, "done") // several recorders in one workflow: none of them may be a port-less driver
	wf.AddProc(p)
	return p
}

func (p *vxParamRecorder) Run() {
	defer p.CloseAllOutPorts()
	for v := range p.InParamPort("in").Chan {
		p.got = append(p.got, v)
	}
}

func vxWF19(buf int) *scipipe.Workflow {
	vxSetEnv("SCIPIPE_BUFSIZE", string(rune('0'+buf)))
	return scipipe.NewWorkflowCustomLogFile("w", 4, "log/w.log")
}

// vxProductOK: rows[k][r] is what out-port k carried at position r; the rows must be
// aligned and form the Cartesian product of the inputs, each tuple exactly once.
func vxProductOK(names []string, inputs map[string][]string, rows map[string][]string) bool {
	total := 1
	for _, n := range names {
		total *= len(inputs[n])
	}
	for _, n := range names {
		if len(rows[n]) != total {
			return false
		}
	}
	seen := map[string]int{}
	for r := 0; r < total; r++ {
		t := ""
		for _, n := range names {
			t += rows[n][r] + "|"
		}
		seen[t]++
	}
	if len(seen) != total {
		return false
	}
	// every tuple of the product is there
	var rec func(i int, prefix string) bool
	rec = func(i int, prefix string) bool {
		if i == len(names) {
			return seen[prefix] == 1
		}
		for _, v := range inputs[names[i]] {
			if !rec(i+1, prefix+v+"|") {
				return false
			}
		}
		return true
	}
	return rec(0, "")
}

// VxH19comb: FileCombinator and ParamCombinator with 2..3 ports of 0..2 items.
func VxH19comb() {
	ports := vxGet("ports")
	file := vxGet("file") == 1
	wf := vxWF19(vxGet("bufsize"))
	names := []string{"a", "b", "c"}[:ports]
	inputs := map[string][]string{}
	for _, n := range names {
		k := vxChoice("len."+n, 3)
		for i := 0; i < k; i++ {
			inputs[n] = append(inputs[n], n+string(rune('0'+i)))
		}
	}
	rows := map[string][]string{}
	vxMapOrder("Run,combine")
	var run func()
	if file {
		comb := NewFileCombinator(wf, "comb")
		recs := map[string]*vxRecorder{}
		for _, n := range names {
			for _, f := range inputs[n] {
				vxFSPut(f, vxFile, 1)
			}
			src := NewFileSource(wf, "src_"+n, inputs[n]...)
			comb.In(n).From(src.Out())
			recs[n] = vxNewRecorder(wf, "rec_"+n)
			recs[n].InPort("in").From(comb.Out(n))
		}
		run = func() {
			wf.Run()
			for _, n := range names {
				rows[n] = recs[n].got
			}
		}
	} else {
		comb := NewParamCombinator(wf, "comb")
		recs := map[string]*vxParamRecorder{}
		for _, n := range names {
			src := NewParamSource(wf, "src_"+n, inputs[n]...)
			comb.InParam(n).From(src.Out())
			recs[n] = vxNewParamRecorder(wf, "rec_"+n)
			recs[n].InParamPort("in").From(comb.OutParam(n))
		}
		run = func() {
			wf.Run()
			for _, n := range names {
				rows[n] = recs[n].got
			}
		}
	}
	kind := vxRun(run)
	vxAssert(kind == "returned", "C19.comb.run-returns")
	vxReach("ran")
	vxAssert(vxProductOK(names, inputs, rows), "C19.comb.cartesian-product-aligned-each-once")
}

// VxH19joint: the out-ports of a combinator feed ONE downstream process that consumes
// them in lock-step (the usual way combinators are used); more rows than the buffers hold.
func VxH19joint() {
	file := vxGet("file") == 1
	vxCmdFree(false, false)
	wf := vxWF19(1)
	la := vxChoice("len.a", 3) + 1
	lb := vxChoice("len.b", 3) + 1
	var as, bs []string
	for i := 0; i < la; i++ {
		as = append(as, "a"+string(rune('0'+i)))
	}
	for i := 0; i < lb; i++ {
		bs = append(bs, "b"+string(rune('0'+i)))
	}
	vxMapOrder("Run,combine")
	if file {
		for _, f := range append(append([]string{}, as...), bs...) {
			vxFSPut(f, vxFile, 1)
		}
		comb := NewFileCombinator(wf, "comb")
		comb.In("a").From(NewFileSource(wf, "sa", as...).Out())
		comb.In("b").From(NewFileSource(wf, "sb", bs...).Out())
		p := wf.NewProc("use", "vcmd r:{i:a} r:{i:b} w:{o:out}")
		p.SetOut("out", "{i:a}.{i:b}.out")
		p.In("a").From(comb.Out("a"))
		p.In("b").From(comb.Out("b"))
	} else {
		comb := NewParamCombinator(wf, "comb")
		comb.InParam("a").From(NewParamSource(wf, "sa", as...).Out())
		comb.InParam("b").From(NewParamSource(wf, "sb", bs...).Out())
		p := wf.NewProc("use", "vcmd w:{o:out} # {p:a} {p:b}")
		p.SetOut("out", "{p:a}.{p:b}.out")
		p.InParam("a").From(comb.OutParam("a"))
		p.InParam("b").From(comb.OutParam("b"))
	}
	kind := vxRun(func() { wf.Run() })
	vxAssert(kind == "returned", "C19.joint.run-returns")
	vxReach("ran")
	vxAssert(vxInvCount() == la*lb, "C19.joint.one-task-per-combination")
	for _, a := range as {
		for _, b := range bs {
			vxAssert(vxFSKind(a+"."+b+".out") == vxFile, "C19.joint.every-combination-processed")
		}
	}
}

// VxH19sel: IPSelectorSync forwards exactly the aligned tuples whose members all satisfy
// the predicate, whole and in order.
func VxH19sel() {
	n := vxGet("n")
	wf := vxWF19(1)
	names := []string{"x", "y"}
	include := map[string]bool{}
	files := map[string][]string{}
	for _, p := range names {
		for i := 0; i < n; i++ {
			f := p + string(rune('0'+i))
			files[p] = append(files[p], f)
			vxFSPut(f, vxFile, 1)
			include[f] = vxConcreteBool(vxBool("inc." + f))
		}
	}
	sel := NewIPSelectorSync(wf, "sel", func(ip *scipipe.FileIP) bool { return include[ip.Path()] })
	recs := map[string]*vxRecorder{}
	for _, p := range names {
		src := NewFileSource(wf, "src_"+p, files[p]...)
		sel.In(p).From(src.Out())
		recs[p] = vxNewRecorder(wf, "rec_"+p)
		recs[p].InPort("in").From(sel.Out(p))
	}
	vxMapOrder("Run,recvOneEach")
	kind := vxRun(func() { wf.Run() })
	vxNote(kind + ": " + vxRunMsg())
	vxAssert(kind == "returned", "C19.sel.run-returns")
	vxReach("ran")
	want := map[string][]string{}
	for i := 0; i < n; i++ {
		if include[files["x"][i]] && include[files["y"][i]] {
			want["x"] = append(want["x"], files["x"][i])
			want["y"] = append(want["y"], files["y"][i])
		}
	}
	for _, p := range names {
		vxAssert(strings.Join(recs[p].got, ",") == strings.Join(want[p], ","), "C19.sel.exactly-the-passing-tuples-in-order")
	}
}

// VxH19split: FileSplitter's parts concatenate back to the input, no part longer than the
// limit.
func VxH19split() {
	n := vxGet("n")
	wf := vxWF19(1)
	lines := []string{}
	for i := 0; i < n; i++ {
		lines = append(lines, vxShape(vxStr("line"+string(rune('0'+i)), 2, vxClassName), ""))
	}
	// the input file: in the working directory, in a sub-directory, above it, absolute
	inps := []string{"in.txt", "d/in.txt", "../up/in.txt", "/abs/in.txt"}
	inp := inps[vxChoice("inpath", len(inps))]
	vxFSMkdirAll("d")
	vxFSMkdirAll("../up")
	vxFSMkdirAll("/abs")
	vxFSPutLines(inp, lines)
	per := vxConcrete(vxInt("per", 1, 3))
	src := NewFileSource(wf, "src", inp)
	sp := NewFileSplitter(wf, "split", per)
	sp.InFile().From(src.Out())
	rec := vxNewRecorder(wf, "rec")
	rec.InPort("in").From(sp.OutSplitFile())
	kind := vxRun(func() { wf.Run() })
	vxAssert(kind == "returned", "C19.split.run-returns")
	vxReach("ran")
	got := []string{}
	for i, part := range rec.got {
		vxAssert(part == inp+".split_"+string(rune('1'+i)), "C19.split.parts-in-order")
		vxAssert(vxFSKind(part) == vxFile, "C19.split.part-exists")
		pl := vxFSLines(part)
		vxAssert(len(pl) <= per, "C19.split.no-part-longer-than-limit")
		vxAssert(!vxFSHasPartialLine(part), "C19.split.whole-lines")
		got = append(got, pl...)
	}
	vxAssert(len(got) == n, "C19.split.parts-concatenate-to-input")
	for i := range got {
		if i < n {
			vxAssert(got[i] == lines[i], "C19.split.parts-concatenate-to-input")
		}
	}
	leftovers := false
	for _, p := range vxFSList(".") {
		if strings.HasPrefix(p, vxTempPrefix()) {
			leftovers = true
		}
	}
	vxAssert(!leftovers, "C19.split.no-temp-dir-left")
}

// VxH19concat: Concatenator's output holds every input's content exactly once, in arrival
// order, each terminated by a newline.
func VxH19concat() {
	n := vxGet("n")
	wf := vxWF19(1)
	files := []string{}
	content := []string{}
	for i := 0; i < n; i++ {
		f := "f" + string(rune('0'+i))
		files = append(files, f)
		c := vxShape(vxStr("c"+string(rune('0'+i)), 2, vxClassName), "")
		content = append(content, c)
		vxFSPutData(f, c)
	}
	src := NewFileSource(wf, "src", files...)
	cc := NewConcatenator(wf, "cc", "out/all.txt")
	cc.In().From(src.Out())
	rec := vxNewRecorder(wf, "rec")
	rec.InPort("in").From(cc.Out())
	kind := vxRun(func() { wf.Run() })
	vxAssert(kind == "returned", "C19.concat.run-returns")
	vxReach("ran")
	vxAssert(len(rec.got) == 1 && rec.got[0] == "out/all.txt", "C19.concat.one-output")
	got := vxFSLines("out/all.txt")
	vxAssert(len(got) == n && !vxFSHasPartialLine("out/all.txt"), "C19.concat.every-input-once-newline-terminated")
	for i := range got {
		if i < n {
			vxNote("got:" + got[i] + " want:" + content[i])
			vxAssert(got[i] == content[i], "C19.concat.arrival-order")
		}
	}
}

// VxH19group: Concatenator with GroupByTag on a stream that mixes tagged and untagged
// inputs: the main output holds exactly the untagged inputs, the per-tag output exactly
// the tagged ones, each once and in arrival order.
func VxH19group() {
	n := vxGet("n")
	wf := vxWF19(1)
	files := []string{}
	content := []string{}
	tagged := []bool{}
	for i := 0; i < n; i++ {
		f := "f" + string(rune('0'+i))
		files = append(files, f)
		c := "c" + string(rune('0'+i))
		content = append(content, c)
		vxFSPutData(f, c)
		tagged = append(tagged, vxConcreteBool(vxBool("tagged"+string(rune('0'+i)))))
	}
	src := NewFileSource(wf, "src", files...)
	tg := NewMapToTags(wf, "tag", func(ip *scipipe.FileIP) map[string]string {
		for i, f := range files {
			if ip.Path() == f && tagged[i] {
				return map[string]string{"t": "x"}
			}
		}
		return map[string]string{}
	})
	tg.In().From(src.Out())
	cc := NewConcatenator(wf, "cc", "out/all.txt")
	cc.GroupByTag = "t"
	cc.In().From(tg.Out())
	rec := vxNewRecorder(wf, "rec")
	rec.InPort("in").From(cc.Out())
	kind := vxRun(func() { wf.Run() })
	vxAssert(kind == "returned", "C19.concat.run-returns")
	vxReach("ran")
	var wantMain, wantTag []string
	for i := range files {
		if tagged[i] {
			wantTag = append(wantTag, content[i])
		} else {
			wantMain = append(wantMain, content[i])
		}
	}
	gotMain := vxFSLines("out/all.txt")
	vxAssert(strings.Join(gotMain, "|") == strings.Join(wantMain, "|"), "C19.concat.untagged-inputs-in-main-output")
	if len(wantTag) > 0 {
		gotTag := vxFSLines("out/all.txt.t_x")
		vxAssert(strings.Join(gotTag, "|") == strings.Join(wantTag, "|"), "C19.concat.tagged-inputs-in-tag-output")
	}
}

// VxH19cmd: CommandToParams emits exactly the lines its command prints, in order — none
// for a command that prints nothing.
func VxH19cmd() {
	n := vxGet("n")
	vxCmdFree(false, false)
	wf := vxWF19(1)
	lines := []string{}
	for i := 0; i < n; i++ {
		lines = append(lines, vxShape(vxStr("l"+string(rune('0'+i)), 2, vxClassName), ""))
	}
	vxFSPutLines("printed.txt", lines)
	c2p := NewCommandToParams(wf, "c2p", "vcmd p:printed.txt")
	prec := vxNewParamRecorder(wf, "prec")
	prec.InParamPort("in").From(c2p.OutParam())
	kind := vxRun(func() { wf.Run() })
	vxAssert(kind == "returned", "C19.src.run-returns")
	vxReach("ran")
	vxAssert(len(prec.got) == n, "C19.src.command-every-line-once")
	for i := range prec.got {
		if i < n {
			vxAssert(prec.got[i] == lines[i], "C19.src.command-lines-in-order")
		}
	}
}

// VxH19src: sources emit exactly the given / read / matching items, in order.
func VxH19src() {
	wf := vxWF19(1)
	// FileSource + ParamSource are exercised by every other harness; here: FileGlobber,
	// FileToParamsReader
	for _, f := range []string{"d/a.txt", "d/b.txt", "d/c.dat", "e/a.txt"} {
		vxFSMkdirAll(f[:1])
		vxFSPut(f, vxFile, 1)
	}
	l1 := vxShape(vxStr("l1", 2, vxClassName), "")
	l2 := vxShape(vxStr("l2", 2, vxClassName), "")
	vxFSPutLines("params.txt", []string{l1, l2, "z"})
	gl := NewFileGlobber(wf, "glob", "d/*.txt", "e/*")
	grec := vxNewRecorder(wf, "grec")
	grec.InPort("in").From(gl.Out())
	rd := NewFileToParamsReader(wf, "rd", "params.txt")
	prec := vxNewParamRecorder(wf, "prec")
	prec.InParamPort("in").From(rd.OutLine())
	kind := vxRun(func() { wf.Run() })
	vxAssert(kind == "returned", "C19.src.run-returns")
	vxReach("ran")
	g := append([]string{}, grec.got...)
	vxAssert(strings.Join(g, ",") == "d/a.txt,d/b.txt,e/a.txt", "C19.src.globber-matching-files-in-order")
	vxAssert(len(prec.got) == 3, "C19.src.reader-every-line-once")
	if len(prec.got) == 3 {
		vxAssert(vxAnd(prec.got[0] == l1, vxAnd(prec.got[1] == l2, prec.got[2] == "z")), "C19.src.reader-lines-in-order")
	}
	_ = sort.Strings
}
