package components

import (
	"github.com/scipipe/scipipe"
)

// C18 (component side): StreamToSubStream wraps its in-port as the sub-stream of exactly
// one carrier IP; the members arrive on the sub-stream once, in order.
func VxH18sts() {
	n := vxGet("n")
	vxSetEnv("SCIPIPE_BUFSIZE", "1")
	wf := scipipe.NewWorkflowCustomLogFile("w", 4, "log/w.log")
	paths := []string{}
	for i := 0; i < n; i++ {
		paths = append(paths, "f"+string(rune('0'+i))+".txt")
	}
	src := NewFileSource(wf, "src", paths...)
	sts := NewStreamToSubStream(wf, "sts")
	recv := wf.NewProc("recv", "cat {i:in|join:,} > {o:out}")
	sts.In().From(src.Out())
	recv.In("in").From(sts.OutSubStream())
	vxPreemptBudget(vxGet("preempt"))
	got := []string{}
	carriers := 0
	kind := vxRun(func() {
		go src.Run()
		go sts.Run()
		for carrier := range recv.In("in").Chan {
			carriers++
			for m := range carrier.SubStream.Chan {
				got = append(got, m.Path())
			}
		}
	})
	vxAssert(kind == "returned", "C18.sts-terminates")
	vxReach("ran")
	vxAssert(carriers == 1, "C18.sts-one-carrier")
	vxAssert(len(got) == n, "C18.sts-all-members")
	for i := range got {
		if i < n {
			vxAssert(got[i] == paths[i], "C18.sts-order")
		}
	}
}
