package components

import (
	"strings"

	"github.com/scipipe/scipipe"
)

// C04 / C05 / C16: generated workflow graphs run by the real Workflow.Run / RunTo on the
// environment model. Nodes (topological order):
//   S  ParamSource("1","2","3")            (optional)
//   A  command process without in-ports; parameter x from S, or from FromStr("9")
//   B  one in-port, fed by A
//   C  one in-port, fed by A or B (symbolic choice)
//   D  two in-ports a, b, each fed by A, B or C (symbolic choices), or a left unconnected
// Out-ports nobody consumes are left dangling on purpose (the sink must drain them).
// Every process writes <name>.<inputs>.txt, so the file set tells who ran, and how often.

// vxFileToParam: a small component written with the public component API: every file
// received on its in-port is announced as a parameter value on its out-param-port.
type vxFileToParam struct {
	scipipe.BaseProcess
}

func vxNewFileToParam(wf *scipipe.Workflow, name string) *vxFileToParam {
	p := &vxFileToParam{BaseProcess: scipipe.NewBaseProcess(wf, name)}
	p.InitInPort(p, "in")
	p.InitOutParamPort(p, "val")
	p.InitOutParamPort(p, "aux") // never consumed by the graphs below: the sink drains it
	wf.AddProc(p)
	return p
}

func (p *vxFileToParam) Run() {
	defer p.CloseAllOutPorts()
	n := 0
	for range p.InPort("in").Chan {
		n++
		p.OutParamPort("val").Send("v" + string(rune('0'+n)))
		p.OutParamPort("aux").Send("w" + string(rune('0'+n)))
	}
}

type vxGraph struct {
	wf      *scipipe.Workflow
	procs   map[string]*scipipe.Process
	up      map[string][]string // node -> upstream nodes
	count   map[string]int      // expected number of tasks if the node runs
	unconn  string              // node with an unconnected port ("" if none)
	withS   bool
	hasD    bool
	dLeaf   bool
	hasF    bool
	hasE    bool
}

func vxBuildGraph(bufsize int) *vxGraph {
	g := &vxGraph{procs: map[string]*scipipe.Process{}, up: map[string][]string{}, count: map[string]int{}}
	vxSetEnv("SCIPIPE_BUFSIZE", string(rune('0'+bufsize)))
	wf := scipipe.NewWorkflowCustomLogFile("w", 4, "log/w.log")
	g.wf = wf
	// connections are made either from the in-port side (in.From(out)) or from the
	// out-port side (out.To(in)); both must give the same workflow
	toDir := vxChoice("connectWithTo", 2) == 1
	conn := func(in *scipipe.InPort, out *scipipe.OutPort) {
		if toDir {
			out.To(in)
		} else {
			in.From(out)
		}
	}
	connP := func(in *scipipe.InParamPort, out *scipipe.OutParamPort) {
		if toDir {
			out.To(in)
		} else {
			in.From(out)
		}
	}
	a := wf.NewProc("A", "vcmd w:{o:out} # {p:x}")
	a.SetOut("out", "A.{p:x}.txt")
	g.procs["A"] = a
	g.withS = vxChoice("paramFromSource", 2) == 1
	if g.withS {
		s := NewParamSource(wf, "S", "1", "2", "3")
		connP(a.InParam("x"), s.Out())
		g.up["A"] = []string{"S"}
		g.count["S"] = 0
		g.count["A"] = 3
	} else {
		a.InParam("x").FromStr("9")
		g.count["A"] = 1
	}
	b := wf.NewProc("B", "vcmd r:{i:in} w:{o:out}")
	b.SetOut("out", "{i:in|%.txt}.B.txt")
	conn(b.In("in"), a.Out("out"))
	g.procs["B"] = b
	g.up["B"] = []string{"A"}
	g.count["B"] = g.count["A"]
	c := wf.NewProc("C", "vcmd r:{i:in} w:{o:out}")
	c.SetOut("out", "{i:in|%.txt}.C.txt")
	g.procs["C"] = c
	switch vxChoice("C.in", 3) {
	case 0:
		conn(c.In("in"), a.Out("out"))
		g.up["C"] = []string{"A"}
		g.count["C"] = g.count["A"]
	case 1:
		conn(c.In("in"), b.Out("out"))
		g.up["C"] = []string{"B"}
		g.count["C"] = g.count["B"]
	case 2: // fan-in of two upstream out-ports into one in-port
		conn(c.In("in"), a.Out("out"))
		conn(c.In("in"), b.Out("out"))
		g.up["C"] = []string{"A", "B"}
		g.count["C"] = g.count["A"] + g.count["B"]
	}
	small := vxGet("small") == 1 // reduced family for deeper schedule exploration
	g.hasD = !small && vxChoice("withD", 2) == 1
	if g.hasD {
		g.dLeaf = vxChoice("D.hasOut", 2) == 0
		var d *scipipe.Process
		if g.dLeaf {
			d = wf.NewProc("D", "vcmd r:{i:a} r:{i:b} x:../D.{i:a|basename}")
		} else {
			d = wf.NewProc("D", "vcmd r:{i:a} r:{i:b} w:{o:out}")
			d.SetOut("out", "D.{i:a|basename}")
		}
		g.procs["D"] = d
		names := []string{"A", "B", "C"}
		ka := vxChoice("D.a", 4) // 3 = left unconnected
		kb := vxChoice("D.b", 3)
		ups := []string{}
		if ka < 3 {
			conn(d.In("a"), g.procs[names[ka]].Out("out"))
			ups = append(ups, names[ka])
		} else {
			g.unconn = "D"
		}
		conn(d.In("b"), g.procs[names[kb]].Out("out"))
		ups = append(ups, names[kb])
		g.up["D"] = ups
		n := g.count[names[kb]]
		if ka < 3 {
			// streams of unequal length on the two ports of one process are outside the
			// bounds (the surplus is dropped by design)
			vxAssume(g.count[names[ka]] == n)
		}
		g.count["D"] = n
	}
	// optional: F (file -> parameter converter) fed by A or B, and E consuming its parameters
	if !small && vxChoice("withF", 2) == 1 {
		f := vxNewFileToParam(wf, "F")
		fu := []string{"A", "B"}[vxChoice("F.in", 2)]
		conn(f.InPort("in"), g.procs[fu].Out("out"))
		g.up["F"] = []string{fu}
		g.count["F"] = 0
		g.hasF = true
		if vxChoice("withE", 2) == 1 {
			e := wf.NewProc("E", "vcmd w:{o:out} # {p:y}")
			e.SetOut("out", "E.{p:y}.txt")
			connP(e.InParam("y"), f.OutParamPort("val"))
			g.procs["E"] = e
			g.up["E"] = []string{"F"}
			g.count["E"] = g.count[fu]
			g.hasE = true
		}
	}
	return g
}

func (g *vxGraph) closure(targets []string) map[string]bool {
	set := map[string]bool{}
	var rec func(n string)
	rec = func(n string) {
		if set[n] {
			return
		}
		set[n] = true
		for _, u := range g.up[n] {
			rec(u)
		}
	}
	for _, t := range targets {
		rec(t)
	}
	return set
}

// ranCount: number of commands each process executed, from the command trace.
func vxRanCount() map[string]int {
	r := map[string]int{}
	for i := 0; i < vxInvCount(); i++ {
		words := strings.Fields(vxInvCmd(i))
		target := ""
		for _, w := range words {
			if strings.HasPrefix(w, "w:") || strings.HasPrefix(w, "x:") {
				target = w[2:]
			}
		}
		if k := strings.LastIndex(target, "/"); k >= 0 {
			target = target[k+1:]
		}
		switch {
		case strings.HasPrefix(target, "D."):
			r["D"]++
		case strings.HasPrefix(target, "E."):
			r["E"]++
		case strings.HasSuffix(target, ".C.txt"):
			r["C"]++
		case strings.HasSuffix(target, ".B.txt"):
			r["B"]++
		default:
			r["A"]++
		}
	}
	return r
}

func VxH16graph() {
	vxCmdFree(false, false)
	g := vxBuildGraph(vxGet("bufsize"))
	nodes := []string{"A", "B", "C"}
	if g.hasD {
		nodes = append(nodes, "D")
	}
	if g.hasE {
		nodes = append(nodes, "E")
	}
	// what to run: everything, or RunTo one symbolic target
	var targets []string
	mode := vxChoice("mode", 2)
	if mode == 0 {
		targets = nodes
	} else {
		targets = []string{nodes[vxChoice("target", len(nodes))]}
	}
	want := g.closure(targets)
	vxPreemptBudget(vxGet("preempt"))
	kind := vxRun(func() {
		if mode == 0 {
			g.wf.Run()
		} else {
			g.wf.RunTo(targets...)
		}
	})
	ran := vxRanCount()
	if g.unconn != "" && want[g.unconn] {
		// C16: a workflow with an unconnected in-port is refused before any command runs
		vxReach("refused")
		vxAssert(vxAnd(kind == "exit", vxRunCode() != 0), "C16.unconnected-port-refused")
		vxAssert(vxInvCount() == 0, "C16.refused-before-any-command")
		return
	}
	vxReach("ran")
	// C05: Run / RunTo returns, with all work done and nothing left behind
	vxAssert(kind == "returned", "C05.run-returns")
	vxAssert(vxNoTempLeftC(), "C05.no-temp-dir-left")
	// C16 + C04: exactly the upstream closure executed, every input set exactly once
	for _, n := range nodes {
		if want[n] {
			vxAssert(ran[n] == g.count[n], "C04.every-input-set-once")
		} else {
			vxAssert(ran[n] == 0, "C16.only-the-closure-runs")
		}
	}
}

func vxNoTempLeftC() bool {
	for _, p := range vxFSList(".") {
		if strings.HasPrefix(p, vxTempPrefix()) || vxFSKind(p) == vxFifo {
			return false
		}
	}
	return true
}

// VxH16glob: the dependency in-port of a dependent file globber counts like every other
// in-port: left unconnected the workflow is refused before anything runs; connected, a
// RunTo past the globber includes the process that feeds it.
func VxH16glob() {
	mode := vxChoice("mode", 2)
	vxCmdFree(false, false)
	vxSetEnv("SCIPIPE_BUFSIZE", "1")
	wf := scipipe.NewWorkflowCustomLogFile("w", 4, "log/w.log")
	u := wf.NewProc("u", "vcmd w:{o:out} n:{p:x}")
	u.SetOut("out", "data/{p:x}.up.txt")
	u.InParam("x").FromStr("a", "b")
	gl := NewFileGlobberDependent(wf, "glob", "data/*.up.txt")
	d := wf.NewProc("d", "vcmd r:{i:in} w:{o:out}")
	d.SetOut("out", "{i:in}.d.txt")
	d.In("in").From(gl.Out())
	tl := wf.NewProc("tail", "vcmd r:{i:in} w:{o:out}")
	tl.SetOut("out", "{i:in}.t.txt")
	tl.In("in").From(d.Out("out"))
	if mode == 0 {
		gl.InDependency().From(u.Out("out"))
		kind := vxRun(func() { wf.RunTo("d") })
		vxReach("ran")
		vxAssert(kind == "returned", "C16.glob.runto-completes")
		for _, x := range []string{"a", "b"} {
			vxAssert(vxFSKind("data/"+x+".up.txt.d.txt") == vxFile, "C16.glob.upstream-of-dependency-port-included")
			vxAssert(vxFSKind("data/"+x+".up.txt.d.txt.t.txt") == vxAbsent, "C16.glob.downstream-of-target-not-run")
		}
		return
	}
	// in_dep left unconnected (u feeds another consumer instead)
	e := wf.NewProc("e", "vcmd r:{i:in} w:{o:out}")
	e.SetOut("out", "{i:in}.e.txt")
	e.In("in").From(u.Out("out"))
	kind := vxRun(func() { wf.Run() })
	vxReach("ran")
	vxAssert(kind == "exit" && vxRunCode() != 0, "C16.unconnected-port-refused")
	vxAssert(vxInvCount() == 0, "C16.unconnected-port-no-command-ran")
}
