package components

import (
	"strings"

	"github.com/scipipe/scipipe"
)

// C01, concurrent tasks: two tasks of one process (inputs with the same base name in
// different directories) run at the same time on two slots; their file-system effects
// interleave (every file-system effect is a scheduling point, the solver picks up to
// `preempt` deviations), each command may fail in any way. Whatever happens, a declared
// final path is absent or holds the complete output of a successful command.
func VxH01conc() {
	wf := scipipe.NewWorkflowCustomLogFile("w", 2, "log/w.log")
	vxFSMkdirAll("a")
	vxFSMkdirAll("b")
	vxFSPut("a/x.txt", vxFile, 1)
	vxFSPut("b/x.txt", vxFile, 2)
	src := NewFileSource(wf, "src", "a/x.txt", "b/x.txt")
	p := wf.NewProc("p", "vcmd r:{i:in} w:{o:out}")
	p.SetOut("out", "{i:in}.out")
	p.In("in").From(src.Out())
	vxPreemptAtFS(true)
	vxPreemptBudget(vxGet("preempt"))
	kind := vxRun(func() { wf.Run() })
	vxReach("ran-" + kind)
	okAll := true
	for i := 0; i < vxInvCount(); i++ {
		if !vxConcreteBool(vxInvOK(i)) {
			okAll = false
		}
	}
	for _, o := range []string{"a/x.txt.out", "b/x.txt.out"} {
		k := vxFSKind(o)
		if k == vxAbsent {
			continue
		}
		ok := k == vxFile && vxFSOrigin(o) == "cmd" && vxConcreteBool(vxFSComplete(o)) && vxConcreteBool(vxInvOK(vxFSInv(o)))
		vxAssert(ok, "C01.conc.final-path-absent-or-complete")
		// and it is the output of the task for this very input
		vxAssert(strings.HasPrefix(vxInvCmd(vxFSInv(o)), "vcmd r:../"+strings.TrimSuffix(o, ".out")+" "), "C01.conc.output-of-its-own-task")
	}
	if kind == "returned" {
		vxAssert(okAll, "C09.conc.no-silent-failure")
		vxAssert(vxFSKind("a/x.txt.out") == vxFile && vxFSKind("b/x.txt.out") == vxFile, "C01.conc.all-outputs-present-on-success")
	}
}
