package components

import (
	"github.com/scipipe/scipipe"
)

// C12: no data races. Small real workflows are run (real Workflow.Run, goroutines,
// channels) with every heap access and synchronisation event recorded; afterwards the
// solver decides for each pair of conflicting accesses from different goroutines whether
// some admissible re-ordering of the synchronisation events makes them adjacent
// (predictive race detection, engine/gose/race.go).

// vxTagReader is a consumer written with the public component API that looks at the
// tags of what it receives (what any user component may do).
type vxTagReader struct {
	scipipe.BaseProcess
	seen int
}

func vxNewTagReader(wf *scipipe.Workflow, name string) *vxTagReader {
	p := &vxTagReader{BaseProcess: scipipe.NewBaseProcess(wf, name)}
	p.InitInPort(p, "in")
	p.InitOutPort(p, "done")
	wf.AddProc(p)
	return p
}

func (p *vxTagReader) Run() {
	defer p.CloseAllOutPorts()
	for ip := range p.InPort("in").Chan {
		for range ip.Tags() {
			p.seen++
		}
	}
}

func VxH12() {
	scenario := vxGet("scenario")
	vxCmdFree(false, false)
	vxSetEnv("SCIPIPE_BUFSIZE", "2")
	wf := scipipe.NewWorkflowCustomLogFile("w", 4, "log/w.log")
	for _, f := range []string{"in1.txt", "in2.txt", "in3.txt"} {
		vxFSPut(f, vxFile, 1)
	}
	switch scenario {
	case 0: // fan-out of one out-port to two command processes, then fan-in
		src := NewFileSource(wf, "src", "in1.txt", "in2.txt")
		a := wf.NewProc("a", "vcmd r:{i:in} w:{o:out}")
		a.SetOut("out", "{i:in}.a")
		b := wf.NewProc("b", "vcmd r:{i:in} w:{o:out}")
		b.SetOut("out", "{i:in}.b")
		a.In("in").From(src.Out())
		b.In("in").From(src.Out())
		m := wf.NewProc("m", "vcmd r:{i:x} r:{i:y} w:{o:out}")
		m.SetOut("out", "{i:x}.m")
		m.In("x").From(a.Out("out"))
		m.In("y").From(b.Out("out"))
	case 1: // fan-out to a tagging component and a sibling consumer (KF-C12-1)
		src := NewFileSource(wf, "src", "in1.txt", "in2.txt")
		tg := NewMapToTags(wf, "tag", func(ip *scipipe.FileIP) map[string]string { return map[string]string{"k": "v"} })
		tg.In().From(src.Out())
		c := wf.NewProc("c", "vcmd r:{i:in} w:{o:out}")
		c.SetOut("out", "{i:in}.c")
		c.In("in").From(src.Out())
		d := wf.NewProc("d", "vcmd r:{i:in} w:{o:out}")
		d.SetOut("out", "{i:in}.d")
		d.In("in").From(tg.Out())
	case 2: // streaming pair (KF-C12-2)
		p := wf.NewProc("prod", "vcmd w:{os:s}")
		p.SetOut("s", "s.txt")
		c := wf.NewProc("cons", "vcmd r:{i:in} w:{o:out}")
		c.SetOut("out", "s.c.txt")
		c.In("in").From(p.Out("s"))
	case 3: // multi-core tasks of two processes competing for the slots
		src := NewFileSource(wf, "src", "in1.txt", "in2.txt", "in3.txt")
		a := wf.NewProc("a", "vcmd r:{i:in} w:{o:out}")
		a.SetOut("out", "{i:in}.a")
		a.CoresPerTask = 2
		b := wf.NewProc("b", "vcmd r:{i:in} w:{o:out}")
		b.SetOut("out", "{i:in}.b")
		b.CoresPerTask = 3
		a.In("in").From(src.Out())
		b.In("in").From(src.Out())
	case 4: // an IP created by a component (no audit record yet) fanned out to two consumers
		vxFSPutLines("lines.txt", []string{"a", "b", "c"})
		src := NewFileSource(wf, "src", "lines.txt")
		sp := NewFileSplitter(wf, "split", 2)
		sp.InFile().From(src.Out())
		a := wf.NewProc("a", "vcmd r:{i:in} w:{o:out}")
		a.SetOut("out", "{i:in}.a")
		b := wf.NewProc("b", "vcmd r:{i:in} w:{o:out}")
		b.SetOut("out", "{i:in}.b")
		a.In("in").From(sp.OutSplitFile())
		b.In("in").From(sp.OutSplitFile())
	case 5: // two tagged inputs merged; each input is also read by a sibling tag reader
		s1 := NewFileSource(wf, "s1", "in1.txt")
		s2 := NewFileSource(wf, "s2", "in2.txt")
		t1 := NewMapToTags(wf, "t1", func(ip *scipipe.FileIP) map[string]string { return map[string]string{"k1": "v1"} })
		t2 := NewMapToTags(wf, "t2", func(ip *scipipe.FileIP) map[string]string { return map[string]string{"k2": "v2"} })
		t1.In().From(s1.Out())
		t2.In().From(s2.Out())
		m := wf.NewProc("merge", "vcmd r:{i:a} r:{i:b} w:{o:out}")
		m.SetOut("out", "m.txt")
		m.In("a").From(t1.Out())
		m.In("b").From(t2.Out())
		r1 := vxNewTagReader(wf, "r1")
		r1.InPort("in").From(t1.Out())
		r2 := vxNewTagReader(wf, "r2")
		r2.InPort("in").From(t2.Out())
	case 6: // fan-in: several senders connected to one parameter in-port and to one file in-port
		ps1 := NewParamSource(wf, "ps1", "a", "b")
		ps2 := NewParamSource(wf, "ps2", "c")
		ps3 := NewParamSource(wf, "ps3", "d")
		w := wf.NewProc("w", "vcmd w:{o:out} # {p:val}")
		w.SetOut("out", "{p:val}.txt")
		w.InParam("val").From(ps1.Out())
		w.InParam("val").From(ps2.Out())
		w.InParam("val").From(ps3.Out())
		s1 := NewFileSource(wf, "s1", "in1.txt")
		s2 := NewFileSource(wf, "s2", "in2.txt")
		s3 := NewFileSource(wf, "s3", "in3.txt")
		c := wf.NewProc("c", "vcmd r:{i:in} w:{o:out}")
		c.SetOut("out", "{i:in}.c")
		c.In("in").From(s1.Out())
		c.In("in").From(s2.Out())
		c.In("in").From(s3.Out())
	case 7: // logging: tasks that log audit lines while another task logs a warning
		src := NewFileSource(wf, "src", "in1.txt", "in2.txt", "in3.txt")
		a := wf.NewProc("a", "vcmd r:{i:in} w:{o:out} # {i:in|%.dat}")
		a.SetOut("out", "{i:in}.a")
		a.In("in").From(src.Out())
		b := wf.NewProc("b", "vcmd r:{i:in} w:{o:out}")
		b.SetOut("out", "{i:in}.b")
		b.In("in").From(src.Out())
	}
	vxPreemptBudget(vxGet("preempt"))
	vxRaceLog(true)
	kind := vxRun(func() { wf.Run() })
	vxAssert(kind == "returned", "C12.scenario-runs")
	vxRaceAnalyse()
	vxReach("analysed")
}
