package components

import "github.com/scipipe/scipipe"

func vxReadAudit(path string) *scipipe.AuditInfo {
	panic("vxReadAudit: environment-model function, not available in native replay")
}
