package main

import (
	"time"

	"github.com/scipipe/scipipe"
)

// C20: the audit report conversion lists every task of the record's lineage exactly once,
// ordered by start time. (Flattening by record ID and ordering are the solver's part;
// template rendering is outside, see DESIGN.md.)

func vxRec(id string, start time.Time) *scipipe.AuditInfo {
	ai := scipipe.NewAuditInfo()
	ai.ID = id
	ai.ProcessName = "proc_" + id
	ai.StartTime = start
	return ai
}

// vxT: a symbolic start time; sources without producing task have the zero time.
func vxT(name string, zero bool) time.Time {
	if zero {
		return time.Time{}
	}
	return vxTime(name, 1, 4)
}

func VxH20() {
	shape := vxGet("shape")
	var root *scipipe.AuditInfo
	var all []*scipipe.AuditInfo
	add := func(id string, zero bool) *scipipe.AuditInfo {
		r := vxRec(id, vxT("t_"+id, zero))
		all = append(all, r)
		return r
	}
	fixed := func(id string, ns int64) *scipipe.AuditInfo {
		r := vxRec(id, time.Unix(0, ns))
		all = append(all, r)
		return r
	}
	switch shape {
	case 0: // chain root <- a <- src
		root = add("root", false)
		a := add("a", false)
		s := add("s", true)
		root.Upstream["a.txt"] = a
		a.Upstream["s.txt"] = s
	case 1: // fan-in of two sources without producing task (equal zero start times)
		root = add("root", false)
		s1 := add("s1", true)
		s2 := add("s2", true)
		root.Upstream["s1.txt"] = s1
		root.Upstream["s2.txt"] = s2
	case 2: // diamond: shared ancestor reached through two paths
		root = add("root", false)
		a := add("a", false)
		b := add("b", false)
		s := add("s", false)
		root.Upstream["a.txt"] = a
		root.Upstream["b.txt"] = b
		a.Upstream["s.txt"] = s
		b.Upstream["s.txt"] = s
	case 3: // equal non-zero start times are possible (symbolic), fan-in of three
		root = add("root", false)
		a := add("a", false)
		b := add("b", false)
		c := add("c", false)
		root.Upstream["a.txt"] = a
		root.Upstream["b.txt"] = b
		root.Upstream["c.txt"] = c
	case 4: // resumed run: the same path produced by two different task records
		root = fixed("root", 9)
		a := fixed("a", 7)
		b := fixed("b", 8)
		x1 := add("x1", false)
		x2 := add("x2", false)
		s1 := add("s1", true)
		root.Upstream["a.txt"] = a
		root.Upstream["b.txt"] = b
		a.Upstream["x.txt"] = x1
		b.Upstream["x.txt"] = x2
		x1.Upstream["s.txt"] = s1
	}
	vxMapOrder("sortAuditInfosByStartTime,extractAuditInfosByID")
	byID := extractAuditInfosByID(root)
	sorted := sortAuditInfosByStartTime(byID)
	vxReach("converted")
	vxAssert(len(sorted) == len(all), "C20.every-record-listed-once.count")
	for _, r := range all {
		n := 0
		for _, s := range sorted {
			if s == r {
				n++
			}
		}
		vxAssert(n == 1, "C20.every-record-listed-once")
	}
	for i := 0; i+1 < len(sorted); i++ {
		vxAssert(vxNot(sorted[i+1].StartTime.Before(sorted[i].StartTime)), "C20.ordered-by-start-time")
	}
}
