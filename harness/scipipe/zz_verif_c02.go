package scipipe

import "strings"

// C02: existing outputs are never re-executed or modified; downstream still receives them.
// Real Workflow.Run of a -> b with a symbolic pre-state: each declared output of a and b
// pre-exists or not (independent symbolic booleans) with a symbolic content identity.

func vxPutIf(name, path string) bool {
	if vxConcreteBool(vxBool(name)) {
		vxFSPut(path, vxFile, vxInt(name+".id", 1, 1000))
		return true
	}
	return false
}

func VxH02() {
	shape := vxGet("shape")
	outA := vxShapePath(shape)
	two := vxGet("two")
	outA2 := ""
	if two == 1 {
		outA2 = "a2.txt"
	}
	if shape == 1 {
		// a pre-existing file needs its directory
		vxFSMkdirAll("sub/dir")
	}
	w := vxTwoStep(outA, outA2, "b.txt")
	preA := vxPutIf("preA", outA)
	preA2 := false
	if two == 1 {
		preA2 = vxPutIf("preA2", outA2)
	}
	preB := vxPutIf("preB", "b.txt")
	inoA, inoA2, inoB := vxFSIno(outA), vxFSIno(outA2), vxFSIno("b.txt")
	idA, idB := vxFSPreID(outA), vxFSPreID("b.txt")
	vxCmdFree(false, false) // commands succeed: the subject here is which commands run
	vxMapOrder("anyOutputsExist,finalizePaths")
	kind := vxRun(func() { w.wf.Run() })
	vxReach("ran")
	aSkipped := preA || preA2
	ranA, ranB := 0, 0
	for i := 0; i < vxInvCount(); i++ {
		if strings.Contains(vxInvCmd(i), " r:") {
			ranB++
		} else {
			ranA++
		}
	}
	if aSkipped {
		vxAssert(ranA == 0, "C02.existing-output-not-reexecuted")
	}
	if preB {
		vxAssert(ranB == 0, "C02.existing-output-not-reexecuted")
	}
	if preA {
		vxAssert(vxAnd(vxFSIno(outA) == inoA, vxFSPreID(outA) == idA), "C02.existing-file-untouched")
	}
	if preA2 {
		vxAssert(vxFSIno(outA2) == inoA2, "C02.existing-file-untouched")
	}
	if preB {
		vxAssert(vxAnd(vxFSIno("b.txt") == inoB, vxFSPreID("b.txt") == idB), "C02.existing-file-untouched")
	}
	if two == 1 && preA != preA2 {
		// one of two outputs exists: the task is skipped and its other output is never
		// produced - the consumer of that output cannot proceed. This is the restart
		// hazard recorded as KF-C03-1; here only o1 is consumed.
		if !preA {
			vxKnown(kind == "returned", "KF-C03-1")
			return
		}
	}
	vxAssert(kind == "returned", "C02.workflow-completes")
	// downstream received the pre-existing file and computed from it
	if preA && !preB {
		vxAssert(ranB == 1, "C02.downstream-proceeds")
		vxAssert(vxInvReadPreID(vxInvCount()-1, 0) == idA, "C02.downstream-reads-existing-bytes")
	}
	vxAssert(vxFSKind("b.txt") == vxFile, "C02.downstream-output-present")
	// history clause: running the completed workflow again executes nothing, changes nothing
	n1 := vxInvCount()
	inoA1, inoB1 := vxFSIno(outA), vxFSIno("b.txt")
	w2 := vxTwoStep(outA, outA2, "b.txt")
	if two == 1 && vxFSKind(outA2) == vxAbsent {
		return
	}
	kind2 := vxRun(func() { w2.wf.Run() })
	vxAssert(kind2 == "returned", "C02.rerun-completes")
	vxAssert(vxInvCount() == n1, "C02.rerun-executes-nothing")
	vxAssert(vxAnd(vxFSIno(outA) == inoA1, vxFSIno("b.txt") == inoB1), "C02.rerun-changes-nothing")
}

// VxH02go: a Go-function task (CustomExecute, declared output missing, so it executes) runs
// while tasks of another process whose outputs already exist are created and checked: those
// are not executed again and their files stay untouched, whatever the Go function does
// with process-wide state (e.g. the working directory) while it runs.
func VxH02go() {
	vxCmdFree(false, false)
	wf := newWorkflowWithoutLogging("w", 4)
	g := NewProc(wf, "g", "{o:gout}")
	g.SetOut("gout", "g.txt")
	g.CustomExecute = func(t *Task) {
		vxYield() // other go-routines get their turn while the function is running
		vxYield()
		t.OutIP("gout").Write([]byte("g\n"))
		vxYield()
	}
	s := NewProc(wf, "s", "vcmd w:{o:out} n:{p:x}")
	s.SetOut("out", "sh_{p:x}.txt")
	s.InParam("x").FromStr("1", "2")
	vxFSPut("sh_1.txt", vxFile, 1)
	vxFSPut("sh_2.txt", vxFile, 2)
	ino1, ino2 := vxFSIno("sh_1.txt"), vxFSIno("sh_2.txt")
	vxPreemptBudget(vxGet("preempt"))
	kind := vxRun(func() { wf.Run() })
	_ = kind // (the Go-function task itself may fail: known finding KF-C01-1)
	vxReach("ran")
	vxAssert(vxInvCount() == 0, "C02.existing-output-not-reexecuted")
	vxAssert(vxFSIno("sh_1.txt") == ino1 && vxFSIno("sh_2.txt") == ino2 && vxFSPreID("sh_1.txt") == 1 && vxFSPreID("sh_2.txt") == 2, "C02.existing-file-untouched")
}
