package scipipe

import (
	"bytes"
	"errors"
	"fmt"
	"io"
	"io/ioutil"
	"os"
	"path"
	"path/filepath"
	"sort"
	"strconv"
	"strings"
	"sync"
	"sync/atomic"
	"time"
	"unicode"
)

// VxHLibProbe: coverage probe of the library models: case k calls one library function the
// way a refactoring or a change of scipipe might, on a symbolic string s (<= 3 bytes of
// the path alphabet) and on concrete values, and compares with a reference where there
// is a short one. `verif libprobe` runs every case and lists the unsupported ones.
func VxHLibProbe() {
	k := vxGet("k")
	s := vxShape(vxStr("s", 3, vxClassPath), "")
	t := vxShape(vxStr("t", 2, vxClassPath), "")
	ok := true
	switch k {
	case 0:
		var sb strings.Builder
		sb.WriteString(s)
		sb.WriteByte('/')
		sb.WriteString(t)
		ok = sb.String() == s+"/"+t && sb.Len() == len(s)+1+len(t)
	case 1:
		var b bytes.Buffer
		b.WriteString(s)
		b.WriteString("x")
		ok = b.String() == s+"x"
	case 2:
		ok = strings.TrimPrefix(s+t, s) == t || strings.HasPrefix(t, s)
		_ = strings.TrimPrefix(s, "a")
	case 3:
		r := strings.TrimSuffix(s, ".t")
		ok = len(r) <= len(s)
	case 4:
		ok = strings.TrimSpace(" "+s+" ") == s
	case 5:
		ok = strings.Count(s, "/") <= 3
	case 6:
		ok = len(strings.Split(s, "/")) == strings.Count(s, "/")+1
	case 7:
		ok = len(strings.SplitN(s, "/", 2)) <= 2
	case 8:
		ok = strings.Index(s, "/") == strings.IndexByte(s, '/')
	case 9:
		ok = strings.LastIndex(s, "/") >= strings.Index(s, "/")
	case 10:
		ok = strings.EqualFold(s, strings.ToUpper(s))
	case 11:
		ok = strings.Repeat("a", 3) == "aaa" && len(strings.Repeat(s, 2)) == 2*len(s)
	case 12:
		ok = strings.Join([]string{s, t}, ",") == s+","+t
	case 13:
		ok = strings.Contains(s+t, t)
	case 14:
		ok = strings.ContainsRune(s, '/') == strings.Contains(s, "/")
	case 15:
		ok = strings.ContainsAny(s, "/.") == (strings.Contains(s, "/") || strings.Contains(s, "."))
	case 16:
		ok = strings.Fields("a b  c")[2] == "c"
	case 17:
		ok = strings.Title("ab") == "Ab" || true
	case 18:
		ok = strings.Map(func(r rune) rune {
			if r == '/' {
				return '_'
			}
			return r
		}, s) == strings.ReplaceAll(s, "/", "_")
	case 19:
		ok = strings.TrimLeft(s, "/") == strings.TrimLeft(s, "/") && strings.TrimRight(s, "/") != s+"/"
	case 20:
		ok = strings.Trim(s, "/") == strings.TrimRight(strings.TrimLeft(s, "/"), "/")
	case 21:
		ok = fmt.Sprintf("%s-%d-%v", s, 7, true) == s+"-7-true"
	case 22:
		ok = fmt.Sprintf("%q", "a") == "\"a\"" && fmt.Sprintf("%03d|%5s|%-3s|%x", 7, "ab", "c", 255) == "007|   ab|c  |ff"
	case 23:
		ok = fmt.Sprint(s, 1) != "" && fmt.Sprintln("a") == "a\n"
	case 24:
		e := fmt.Errorf("wrap %s: %w", s, os.ErrNotExist)
		ok = errors.Is(e, os.ErrNotExist) && errors.Unwrap(e) == os.ErrNotExist && strings.HasPrefix(e.Error(), "wrap ")
	case 25:
		ok = strconv.Itoa(42) == "42" && strconv.Quote("a") == "\"a\""
		n, err := strconv.Atoi("17")
		ok = ok && n == 17 && err == nil
		_, err = strconv.Atoi("x")
		ok = ok && err != nil
	case 26:
		b, err := strconv.ParseBool("true")
		f, err2 := strconv.ParseInt("-5", 10, 64)
		ok = b && err == nil && f == -5 && err2 == nil && strconv.FormatInt(255, 16) == "ff"
	case 27:
		xs := []string{"b", "a", s}
		sort.Strings(xs)
		ok = xs[0] <= xs[1] && xs[1] <= xs[2]
	case 28:
		xs := []int{3, 1, 2}
		sort.Ints(xs)
		ys := []string{"bb", "a", "ccc"}
		sort.Slice(ys, func(i, j int) bool { return len(ys[i]) < len(ys[j]) })
		sort.SliceStable(ys, func(i, j int) bool { return ys[i] < ys[j] })
		ok = xs[0] == 1 && ys[0] == "a" && sort.SearchStrings(ys, "bb") == 1 && sort.StringsAreSorted(ys)
	case 29:
		ok = filepath.Join(s, t) == path.Join(s, t)
	case 30:
		ok = filepath.Dir(s) == path.Dir(s) && filepath.Base(s) == path.Base(s)
	case 31:
		ok = filepath.Ext("a/b.txt") == ".txt" && len(filepath.Ext(s)) <= len(s)
	case 32:
		d, f := filepath.Split(s)
		ok = d+f == s
	case 33:
		ok = filepath.IsAbs(s) == strings.HasPrefix(s, "/")
	case 34:
		ok = filepath.Clean(s) == path.Clean(s)
	case 35:
		r, err := filepath.Rel("/a/b", "/a/b/c/d")
		ok = err == nil && r == "c/d"
	case 36:
		a, err := filepath.Abs("x/y")
		ok = err == nil && strings.HasSuffix(a, "/x/y")
	case 37:
		m, err := filepath.Match("*.txt", "a.txt")
		ok = m && err == nil
	case 38:
		ok = filepath.ToSlash(s) == s && filepath.FromSlash(s) == s && filepath.VolumeName(s) == ""
	case 39:
		err := os.MkdirAll("d1/d2", 0777)
		err2 := ioutil.WriteFile("d1/d2/f.txt", []byte("hello\n"), 0644)
		b, err3 := ioutil.ReadFile("d1/d2/f.txt")
		ok = err == nil && err2 == nil && err3 == nil && string(b) == "hello\n"
	case 40:
		_ = os.MkdirAll("d1", 0777)
		f, err := os.Create("d1/g.txt")
		ok = err == nil
		_, err = f.WriteString("abc")
		ok = ok && err == nil
		_, err = f.Write([]byte("def\n"))
		ok = ok && err == nil && f.Close() == nil && f.Name() == "d1/g.txt"
		st, err := os.Stat("d1/g.txt")
		ok = ok && err == nil && !st.IsDir() && st.Name() == "g.txt" && st.Size() == 7 && st.Mode().IsRegular()
		_, err = os.Lstat("d1/nope")
		ok = ok && os.IsNotExist(err) && errors.Is(err, os.ErrNotExist)
	case 41:
		_ = ioutil.WriteFile("h.txt", []byte("x"), 0644)
		ok = os.Rename("h.txt", "i.txt") == nil && os.Remove("i.txt") == nil && os.Remove("i.txt") != nil
		ok = ok && os.RemoveAll("nonexistent") == nil
	case 42:
		_ = os.MkdirAll("e1/e2", 0777)
		_ = ioutil.WriteFile("e1/a", []byte("x"), 0644)
		es, err := os.ReadDir("e1")
		ok = err == nil && len(es) == 2 && es[0].Name() == "a" && !es[0].IsDir() && es[1].IsDir()
		fi, err := ioutil.ReadDir("e1")
		ok = ok && err == nil && len(fi) == 2
	case 43:
		wd, err := os.Getwd()
		ok = err == nil && wd != ""
		ok = ok && os.Getenv("NOPE") == "" && len(os.Args) >= 0
		_, has := os.LookupEnv("NOPE")
		ok = ok && !has
	case 44:
		_ = ioutil.WriteFile("j.txt", []byte("l1\nl2\n"), 0644)
		f, err := os.Open("j.txt")
		ok = err == nil
		b, err := io.ReadAll(f)
		ok = ok && err == nil && string(b) == "l1\nl2\n"
		f.Close()
		f2, err := os.OpenFile("j.txt", os.O_APPEND|os.O_WRONLY, 0644)
		ok = ok && err == nil
		io.WriteString(f2, "l3\n")
		f2.Close()
		b2, _ := os.ReadFile("j.txt")
		ok = ok && string(b2) == "l1\nl2\nl3\n" && os.WriteFile("k.txt", b2, 0644) == nil
	case 45:
		_ = ioutil.WriteFile("src.txt", []byte("data"), 0644)
		in, _ := os.Open("src.txt")
		out, _ := os.Create("dst.txt")
		n, err := io.Copy(out, in)
		in.Close()
		out.Close()
		b, _ := ioutil.ReadFile("dst.txt")
		ok = err == nil && n == 4 && string(b) == "data"
	case 46:
		var once sync.Once
		n := 0
		once.Do(func() { n++ })
		once.Do(func() { n++ })
		var rw sync.RWMutex
		rw.RLock()
		rw.RUnlock()
		rw.Lock()
		rw.Unlock()
		var c int32
		atomic.AddInt32(&c, 2)
		var c64 int64
		atomic.AddInt64(&c64, 1)
		ok = n == 1 && atomic.LoadInt32(&c) == 2 && atomic.LoadInt64(&c64) == 1 && atomic.CompareAndSwapInt32(&c, 2, 3)
	case 47:
		t0 := time.Now()
		d := time.Since(t0)
		ok = d >= 0 && t0.Add(time.Second).After(t0) && !t0.IsZero() && time.Duration(1500)*time.Millisecond > time.Second
		_ = t0.Format(time.RFC3339)
		_ = t0.Unix()
		_ = t0.UnixNano()
	case 48:
		ok = unicode.IsUpper('A') && unicode.IsLetter('a') && unicode.IsDigit('1') && unicode.ToLower('A') == 'a' && unicode.IsSpace(' ')
		for _, r := range s {
			if unicode.IsUpper(r) {
				ok = ok && unicode.ToLower(r) != r
			}
		}
	case 49:
		e1 := errors.New("e1")
		var pe *os.PathError
		_, err := os.Stat("nope/nope")
		ok = e1.Error() == "e1" && errors.As(err, &pe) && pe.Op != ""
	case 50:
		bs := []byte(s)
		ok = len(bs) == len(s) && string(bs) == s && bytes.Equal(bs, []byte(s)) && bytes.HasPrefix([]byte("abc"), []byte("ab")) && bytes.Contains([]byte("abc"), []byte("bc"))
	case 51:
		rs := []rune(s)
		ok = len(rs) == len(s) && string(rs) == s
		n := 0
		for i := range s {
			n += i - i + 1
		}
		ok = ok && n == len(s)
	case 52:
		m := map[string]int{"a": 1}
		m[s]++
		delete(m, "zz")
		v, has := m["a"]
		ok = has && v >= 1 && len(m) >= 1
	case 53:
		xs := append([]string{}, s, t)
		ys := make([]string, len(xs))
		n := copy(ys, xs)
		ok = n == 2 && ys[1] == t && cap(ys) >= 2
		xs = append(xs[:1], xs[2:]...)
		ok = ok && len(xs) == 1
	case 54:
		type pt struct {
			a string
			b int
		}
		p := pt{s, 1}
		q := p
		q.b = 2
		arr := [2]pt{p, q}
		ok = arr[0].b == 1 && arr[1].a == s && p == pt{s, 1}
	case 55:
		var i interface{} = s
		str, isStr := i.(string)
		_, isInt := i.(int)
		switch v := i.(type) {
		case string:
			ok = v == s
		default:
			ok = false
		}
		ok = ok && isStr && !isInt && str == s
	case 56:
		ch := make(chan string, 2)
		ch <- s
		ch <- t
		close(ch)
		var got []string
		for v := range ch {
			got = append(got, v)
		}
		ok = len(got) == 2 && got[1] == t
		select {
		case _, open := <-ch:
			ok = ok && !open
		default:
			ok = false
		}
	case 57:
		defer func() {
			r := recover()
			vxAssert(r != nil, "probe.recover")
			vxReach("probed")
		}()
		var xs []int
		_ = xs[len(s)+5]
	case 58:
		var wg sync.WaitGroup
		var mu sync.Mutex
		n := 0
		for i := 0; i < 3; i++ {
			wg.Add(1)
			go func() {
				defer wg.Done()
				mu.Lock()
				n++
				mu.Unlock()
			}()
		}
		wg.Wait()
		ok = n == 3
	case 59:
		tk := time.NewTimer(time.Millisecond)
		select {
		case <-tk.C:
		case <-time.After(time.Second):
		}
		time.Sleep(time.Millisecond)
		ok = true
	case 60:
		f, err := ioutil.TempFile("", "x")
		ok = err == nil && f.Name() != ""
		f.Close()
		d, err := ioutil.TempDir("", "y")
		ok = ok && err == nil && d != ""
		d2, err := os.MkdirTemp("", "z")
		ok = ok && err == nil && d2 != ""
	case 61:
		ok = strings.NewReplacer("/", "_", ".", "-").Replace(s) == strings.ReplaceAll(strings.ReplaceAll(s, "/", "_"), ".", "-")
	case 62:
		r := strings.NewReader("ab\ncd\n")
		b, _ := ioutil.ReadAll(r)
		ok = string(b) == "ab\ncd\n"
	case 63:
		ok = strings.IndexAny(s, "/.") <= strings.LastIndexAny(s, "/.") && strings.IndexRune(s, '/') == strings.Index(s, "/") && strings.LastIndexByte(s, '/') == strings.LastIndex(s, "/")
	case 64:
		ok = strings.Compare(s, t) == -strings.Compare(t, s) && (s < t) == (strings.Compare(s, t) < 0)
	case 65:
		c1, c2, found := strings.Cut(s, "/")
		ok = (found && c1+"/"+c2 == s) || (!found && c1 == s && c2 == "")
	}
	vxAssert(ok, "probe.ok")
	vxReach("probed")
}
