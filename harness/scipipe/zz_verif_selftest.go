package scipipe

import "sync"

// Self-tests of the race analysis: the expected number of racy site pairs is asserted.

type vxBox struct {
	v  int
	mu sync.Mutex
}

//go:noinline
func vxlibStore(b *vxBox, v int) { b.v = v }

//go:noinline
func vxlibLoad(b *vxBox) int { return b.v }

// VxSelfRace: kind 0 store-then-go (ordered), 1 unordered store/load, 2 ordered by an
// unbuffered channel, 3 protected by a mutex, 4 the reader takes the lock first in the default schedule, so lock order does not order the write before the read: a race
func VxSelfRace() {
	kind := vxGet("kind")
	b := &vxBox{}
	done := make(chan int)
	vxRaceLog(true)
	vxRun(func() {
		switch kind {
		case 0:
			b.v = 1
			go func() { _ = b.v; done <- 1 }()
			<-done
		case 1:
			go func() { b.v = 2; done <- 1 }()
			_ = b.v
			<-done
		case 2:
			go func() { b.v = 2; done <- 1 }()
			<-done
			_ = b.v
		case 3:
			go func() { b.mu.Lock(); b.v = 2; b.mu.Unlock(); done <- 1 }()
			b.mu.Lock()
			_ = b.v
			b.mu.Unlock()
			<-done
		case 4:
			go func() { b.v = 2; b.mu.Lock(); b.mu.Unlock(); done <- 1 }()
			b.mu.Lock()
			b.mu.Unlock()
			_ = b.v
			<-done
		}
	})
	n := vxRaceAnalyseAll()
	want := map[int]int{0: 0, 1: 1, 2: 0, 3: 0, 4: 1}[kind]
	vxAssert(n == want, "selftest.race-count")
	vxReach("done")
}
