package scipipe

import "time"

// Harness vocabulary. These functions have no body: the symbolic executor (gose)
// intercepts them by name. (For native replay a second file provides bodies.)

const (
	vxClassAny   = 0
	vxClassPath  = 1
	vxClassName  = 2
	vxClassValue = 3
	vxClassSmall = 4
	vxClassPrint = 5
	vxClassSmallWS = 6
)

const (
	vxAbsent = 0
	vxFile   = 1
	vxDir    = 2
	vxFifo   = 3
)

func vxStr(name string, max int, class int) string
func vxInt(name string, lo, hi int) int
func vxInt64(name string, lo, hi int64) int64
func vxBool(name string) bool
func vxTime(name string, lo, hi int64) time.Time
func vxChoice(name string, n int) int
func vxConcrete(v int) int
func vxConcreteBool(b bool) bool
func vxConcreteStr(s string) string
func vxShape(s string, structural string) string
func vxAssume(c bool)
func vxAssert(c bool, id string)
func vxKnown(c bool, id string)
func vxReach(id string)
func vxNote(s string)
func vxEmit(s string)
func vxListing() []string
func vxNVFile(path string)
func vxNVLines(path string, lines []string)
func vxFileLines(path string) []string
func vxOr(a, b bool) bool
func vxAnd(a, b bool) bool
func vxNot(a bool) bool
func vxImplies(a, b bool) bool
func vxIte(c bool, a, b string) string
func vxCleanPath(s string) bool
func vxContains(s, sub string) bool
func vxHasPrefix(s, p string) bool
func vxHasSuffix(s, p string) bool
func vxIsSym(s string) bool
func vxRun(f func()) string
func vxRunMsg() string
func vxRunCode() int
func vxTraceChan(ch interface{})
func vxTraceMutex(p interface{})
func vxTraceMark(s string)
func vxBarrier(k int)
func vxTempPrefix() string
func vxFieldChan(obj interface{}, idx int) interface{}
func vxChanCap(ch interface{}) int
func vxRaceLog(on bool)
func vxRaceAnalyse() int
func vxRaceAnalyseAll() int
func vxYield()
func vxPreemptBudget(n int)
func vxPreemptAtFS(on bool)
func vxMapOrder(funcs string)
func vxMapOrderOff()
func vxMapOrderReverse(b bool)
func vxSetEnv(k, v string)
func vxTraceMode(on bool)
func vxTraceStatSeq(seq string)
func vxTraceStatFork(on bool)
func vxTraceStatRule(tmpdir string)
func vxWalkExtra(path string)
func vxWalkExtraKind(kind int)
func vxClockSymbolic(on bool)
func vxCmdFree(writes, exit bool)
func vxKillAt(k int)
func vxKillAtDesc(substr string)
func vxOps() int
func vxFSPut(path string, kind int, id int)
func vxFSMkdirAll(path string)
func vxFSDelete(path string)
func vxFSPutData(path string, data string)
func vxFSPutLines(path string, lines []string)
func vxFSKind(path string) int
func vxFSIno(path string) int
func vxFSOrigin(path string) string
func vxFSInv(path string) int
func vxFSTarget(path string) string
func vxFSComplete(path string) bool
func vxFSPreID(path string) int
func vxFSMTime(path string) int64
func vxFSData(path string) string
func vxFSLines(path string) []string
func vxFSHasPartialLine(path string) bool
func vxFSList(dir string) []string
func vxFSRemoveTemp()
func vxFSRemoveTempDirsOnly()
func vxEvCount() int
func vxEvOp(i int) string
func vxEvArg(i, k int) string
func vxEvArgInt(i, k int) int
func vxInvCount() int
func vxInvCmd(i int) string
func vxInvOK(i int) bool
func vxInvEnded(i int) bool
func vxInvRun(i int) int
func vxInvReadCount(i int) int
func vxInvReadPath(i, k int) string
func vxInvReadPreID(i, k int) int
func vxInvReadInv(i, k int) int
func vxRunID() int
func vxChanLen(ch interface{}) int
func vxBlockedCount() int
func vxSet(k string, v int)
func vxGet(k string) int
