package scipipe

import "strings"

// C18: a joined in-port ({i:x|join:SEP}) receives the whole sub-stream, once, in order.

func vxMember18(name string, L int) string {
	m := vxShape(vxStr(name, L, vxClassPath), "")
	valid, _ := pathIsValid(m)
	vxAssume(valid)
	vxAssume(m[0] != '.') // keeps member names apart from "." / ".." (not files)
	return m
}

func VxH18join() {
	L := vxGet("L")
	n := vxGet("n")
	vxTraceMode(true)
	vxSetEnv("SCIPIPE_BUFSIZE", "1") // sub-streams longer than the channel buffer
	seps := []string{" ", ",", ":", ", ", " -I "} // one-character and multi-character separators
	nsep := vxGet("nsep") // 3: the one-character separators only; 5: all
	if nsep < len(seps) {
		seps = seps[:nsep]
	}
	sep := seps[vxChoice("sep", len(seps))]
	mod := vxChoice("mod", 4) // 1 / 2: with a %suffix modifier after / before the join modifier; 3: a modifier that is not idempotent (s/a/bb/) after it
	pat := "cat {i:in|join:" + sep + "} > {o:out}"
	if mod == 1 {
		pat = "cat {i:in|join:" + sep + "|%.t} > {o:out}"
	}
	if mod == 2 {
		pat = "cat {i:in|%.t|join:" + sep + "} > {o:out}"
	}
	if mod == 3 {
		pat = "cat {i:in|join:" + sep + "|s/a/bb/} > {o:out}"
	}
	wf := newWorkflowWithoutLogging("w", 4)
	p := NewProc(wf, "p", pat)
	p.SetOut("out", "o.txt")
	carrier, err := NewFileIP("carrier")
	vxAssume(err == nil)
	members := []string{}
	for i := 0; i < n; i++ {
		members = append(members, vxMember18("m"+string(rune('0'+i)), L))
	}
	ips := []*FileIP{}
	for _, m := range members {
		ip, e := NewFileIP(m)
		vxAssume(e == nil)
		ips = append(ips, ip)
	}
	go func() {
		for _, ip := range ips {
			carrier.SubStream.Send(ip)
		}
		close(carrier.SubStream.Chan)
	}()
	var t *Task
	kind := vxRun(func() {
		t = NewTask(wf, p, "p", p.CommandPattern, map[string]*FileIP{"in": carrier}, p.PathFuncs, p.PortInfo,
			map[string]string{}, map[string]string{}, "", nil, 1)
	})
	vxAssert(kind == "returned", "C18.task-formed")
	vxReach("task-built")
	exp, expAll := "", ""
	for i, m := range members {
		if i > 0 {
			exp += sep
			expAll += sep
		}
		v, alt := m, m
		if mod == 1 || mod == 2 {
			v, alt = vxRefTrim(m, ".t"), vxRefTrimAlt(m, ".t")
			_ = alt
		}
		if mod == 3 {
			// "simple search and replace": the first or every occurrence, once per member
			exp += vxRefPrefix(strings.Replace(m, "a", "bb", 1))
			expAll += vxRefPrefix(strings.Replace(m, "a", "bb", -1))
			continue
		}
		exp += vxRefPrefix(v)
		expAll += vxRefPrefix(v)
	}
	if mod == 1 || mod == 2 {
		// whole-value suffixes are excluded here to keep one admissible outcome
		for _, m := range members {
			vxAssume(m != ".t")
		}
	}
	vxAssert(vxOr(t.Command == "cat "+exp+" > o.txt", t.Command == "cat "+expAll+" > o.txt"), "C18.joined-in-order")
	// every member is known to the task (audit upstream and temp-dir identity use this list)
	got := t.subStreamIPs["in"]
	vxAssert(len(got) == n, "C18.all-members-collected")
	for i := range got {
		if i < len(ips) {
			vxAssert(got[i] == ips[i], "C18.members-in-arrival-order")
		}
	}
	// the sub-stream is drained
	_, open := <-carrier.SubStream.Chan
	vxAssert(!open, "C18.substream-drained")
}

// VxH18two: two joined in-ports on one process do not mix their sub-streams.
func VxH18two() {
	vxTraceMode(true)
	vxSetEnv("SCIPIPE_BUFSIZE", "1")
	na, nb := vxGet("na"), vxGet("nb")
	wf := newWorkflowWithoutLogging("w", 4)
	p := NewProc(wf, "p", "cat {i:a|join: } -- {i:b|join:,} > {o:out}")
	p.SetOut("out", "o.txt")
	ca, _ := NewFileIP("ca")
	cb, _ := NewFileIP("cb")
	mk := func(prefix string, n int, c *FileIP) []string {
		ms := []string{}
		ips := []*FileIP{}
		for i := 0; i < n; i++ {
			m := vxMember18(prefix+string(rune('0'+i)), 2)
			ip, e := NewFileIP(m)
			vxAssume(e == nil)
			ms = append(ms, m)
			ips = append(ips, ip)
		}
		go func() {
			for _, ip := range ips {
				c.SubStream.Send(ip)
			}
			close(c.SubStream.Chan)
		}()
		return ms
	}
	ma := mk("a", na, ca)
	mb := mk("b", nb, cb)
	vxMapOrder("NewTask")
	var t *Task
	kind := vxRun(func() {
		t = NewTask(wf, p, "p", p.CommandPattern, map[string]*FileIP{"a": ca, "b": cb}, p.PathFuncs, p.PortInfo,
			map[string]string{}, map[string]string{}, "", nil, 1)
	})
	vxAssert(kind == "returned", "C18.two.task-formed")
	vxReach("task-built")
	ea, eb := "", ""
	for i, m := range ma {
		if i > 0 {
			ea += " "
		}
		ea += vxRefPrefix(m)
	}
	for i, m := range mb {
		if i > 0 {
			eb += ","
		}
		eb += vxRefPrefix(m)
	}
	vxAssert(t.Command == "cat "+ea+" -- "+eb+" > o.txt", "C18.two.each-port-own-substream")
}
