package scipipe

// Shared scaffolding for the environment-model harnesses (C01, C02, C03, C09, C10, C11):
// a small real workflow  a -> b  of command processes, run through the real Workflow.Run.

type vxWF struct {
	wf   *Workflow
	a, b *Process
}

// vxTwoStep: process a (no inputs) writes outA (and outA2 if two), b reads it and writes outB.
func vxTwoStep(outA, outA2, outB string) *vxWF {
	wf := newWorkflowWithoutLogging("w", 4)
	var a *Process
	if outA2 != "" {
		a = NewProc(wf, "a", "vcmd w:{o:o1} w:{o:o2}")
		a.SetOut("o1", outA)
		a.SetOut("o2", outA2)
	} else {
		a = NewProc(wf, "a", "vcmd w:{o:o1}")
		a.SetOut("o1", outA)
	}
	if vxGet("side") == 1 {
		// an output declared only through SetOut: the command writes it under its plain
		// name into its working directory (no placeholder in the pattern)
		a.CommandPattern += " w:side.txt"
		a.SetOut("side", "side.txt")
	}
	b := NewProc(wf, "b", "vcmd r:{i:in} w:{o:out}")
	b.SetOut("out", outB)
	b.In("in").From(a.Out("o1"))
	return &vxWF{wf, a, b}
}

// VxHwfSmoke: the whole workflow runs under the interpreter.
func VxHwfSmoke() {
	vxCmdFree(false, false)
	w := vxTwoStep("a.txt", "", "b.txt")
	kind := vxRun(func() { w.wf.Run() })
	vxAssert(kind == "returned", "smoke.returned")
	vxAssert(vxFSKind("a.txt") == vxFile, "smoke.a")
	vxAssert(vxFSKind("b.txt") == vxFile, "smoke.b")
	vxAssert(vxInvCount() == 2, "smoke.two-commands")
	vxReach("ran")
}
