package scipipe

import (
	"errors"
	"fmt"
	"sort"
	"strings"
)

// VxHLangProbe: coverage probe of Go language constructs in the interpreter, the way
// VxHLibProbe probes the library models. Every case must evaluate `ok` to true (natively
// as well: `verif replay` runs the same function compiled).

type vxShapeI interface {
	Area() int
	Name() string
}
type vxNamed struct{ name string }

func (n vxNamed) Name() string { return n.name }

type vxRect struct {
	vxNamed
	w, h int
}

func (r vxRect) Area() int { return r.w * r.h }

type vxSq struct {
	*vxNamed
	s int
}

func (s *vxSq) Area() int { return s.s * s.s }

type vxStack []int

func (s *vxStack) Push(v int) { *s = append(*s, v) }
func (s *vxStack) Pop() int {
	old := *s
	v := old[len(old)-1]
	*s = old[:len(old)-1]
	return v
}

type vxErrKind struct{ code int }

func (e *vxErrKind) Error() string { return fmt.Sprintf("kind %d", e.code) }

func vxVariadic(pre string, xs ...int) int {
	n := len(pre)
	for _, x := range xs {
		n += x
	}
	return n
}

func vxNamedResult(s string) (out string, err error) {
	defer func() {
		if r := recover(); r != nil {
			err = fmt.Errorf("recovered: %v", r)
			out = "fallback"
		}
	}()
	if s == "" {
		panic("empty")
	}
	out = s + "!"
	return
}

func vxDeferOrder() (log []string) {
	for i := 0; i < 3; i++ {
		defer func(i int) { log = append(log, fmt.Sprint(i)) }(i)
	}
	return
}

type vxByLen []string

func (a vxByLen) Len() int           { return len(a) }
func (a vxByLen) Swap(i, j int)      { a[i], a[j] = a[j], a[i] }
func (a vxByLen) Less(i, j int) bool { return len(a[i]) < len(a[j]) }

func VxHLangProbe() {
	k := vxGet("k")
	s := vxShape(vxStr("s", 3, vxClassPath), "")
	t := vxShape(vxStr("t", 2, vxClassPath), "")
	ok := true
	switch k {
	case 0: // embedding, interface dispatch, method promotion
		var sh vxShapeI = vxRect{vxNamed{s}, 2, 3}
		sq := &vxSq{&vxNamed{t}, 4}
		shapes := []vxShapeI{sh, sq}
		total := 0
		for _, x := range shapes {
			total += x.Area()
		}
		ok = total == 22 && shapes[0].Name() == s && shapes[1].Name() == t
	case 1: // pointer receivers through a named slice type
		var st vxStack
		st.Push(1)
		st.Push(2)
		st.Push(3)
		ok = st.Pop() == 3 && len(st) == 2 && st[1] == 2
	case 2: // type switch, comma-ok assertions, nil interface
		var vals []interface{}
		vals = append(vals, s, 3, nil, []string{t}, map[string]int{"a": 1}, &vxErrKind{7}, true, 'x', 2.5)
		n := 0
		for _, v := range vals {
			switch x := v.(type) {
			case string:
				n += 1
				ok = ok && x == s
			case int:
				n += 10
			case nil:
				n += 100
			case []string:
				n += 1000
				ok = ok && x[0] == t
			case error:
				n += 10000
				ok = ok && x.Error() == "kind 7"
			case bool, rune:
				n += 100000
			default:
				n += 1000000
			}
		}
		ok = ok && n == 2211111
	case 3: // variadic, slices of slices, 3-index slices
		xs := []int{1, 2, 3, 4, 5}
		ok = vxVariadic(s, xs...) == len(s)+15 && vxVariadic("ab") == 2 && vxVariadic("", 1, 2) == 3
		part := xs[1:3:4]
		part = append(part, 9)
		ok = ok && xs[3] == 9 && cap(part) == 3
		part = append(part, 10)
		part[0] = 100
		ok = ok && xs[1] == 2 && len(part) == 4
		grid := [][]string{{s}, {t, s}}
		grid[1] = append(grid[1], "z")
		ok = ok && len(grid[1]) == 3 && grid[0][0] == s
	case 4: // defer order, named results modified by defers, recover
		l := vxDeferOrder()
		ok = len(l) == 3 && l[0] == "2" && l[2] == "0"
		o, e := vxNamedResult(s)
		if s == "" {
			ok = ok && o == "fallback" && e != nil && strings.HasPrefix(e.Error(), "recovered: ")
		} else {
			ok = ok && o == s+"!" && e == nil
		}
	case 5: // closures: counters, captured loop variable (per-loop before go 1.22)
		mk := func() func() int {
			c := 0
			return func() int { c++; return c }
		}
		a, b := mk(), mk()
		a()
		a()
		ok = a() == 3 && b() == 1
		var fs []func() int
		for i := 0; i < 3; i++ {
			fs = append(fs, func() int { return i })
		}
		ok = ok && fs[0]() == 3 && fs[2]() == 3 // go.mod says go 1.13: one variable per loop
	case 6: // labelled break / continue, goto, switch fallthrough
		n := 0
	outer:
		for i := 0; i < 4; i++ {
			for j := 0; j < 4; j++ {
				if j == 2 {
					continue outer
				}
				if i == 3 {
					break outer
				}
				n++
			}
		}
		ok = n == 6
		m := 0
		switch len(t) {
		case 0:
			m = 1
			fallthrough
		case 1:
			m += 10
		default:
			m += 100
		}
		ok = ok && (m == 11 || m == 10 || m == 100)
		i := 0
	again:
		i++
		if i < 3 {
			goto again
		}
		ok = ok && i == 3
	case 7: // integer arithmetic: wrap-around, shifts, division, conversions
		var u8 uint8 = 250
		u8 += 10
		var i8 int8 = 127
		i8++
		var u32 uint32 = 1 << 31
		u32 <<= 1
		x := -7
		ok = u8 == 4 && i8 == -128 && u32 == 0 && x/2 == -3 && x%2 == -1 && x>>1 == -4 && uint8(x) == 249 && int64(int32(-1)) == -1
		ok = ok && 7&^5 == 2 && 6^3 == 5 && (1<<uint(len(t)))|1 >= 1
		n := len(s)
		ok = ok && n*2/2 == n && (n+1)%(n+1) == 0
	case 8: // maps: nil map read, struct values, delete during range, map of slices
		var nilm map[string]int
		ok = nilm["x"] == 0 && len(nilm) == 0
		type pt struct{ x, y int }
		ms := map[string]pt{"a": {1, 2}}
		p := ms["a"]
		p.x = 9
		ok = ok && ms["a"].x == 1
		ms["a"] = p
		ok = ok && ms["a"].x == 9
		mm := map[int]bool{1: true, 2: true, 3: true}
		for k := range mm {
			delete(mm, k)
		}
		ok = ok && len(mm) == 0
		msl := map[string][]string{}
		msl[s] = append(msl[s], t)
		msl[s] = append(msl[s], "q")
		ok = ok && len(msl[s]) == 2 && len(msl) == 1
		_, has := msl["absent-key"]
		ok = ok && !has
	case 9: // struct comparison, arrays as values, anonymous structs, pointers to fields
		type kv struct {
			k string
			v [2]int
		}
		a := kv{s, [2]int{1, 2}}
		b := a
		b.v[0] = 5
		ok = a != b && a.v[0] == 1 && a == kv{s, [2]int{1, 2}}
		pf := &a.v[1]
		*pf = 7
		ok = ok && a.v[1] == 7
		anon := struct {
			name string
			n    int
		}{t, 3}
		ok = ok && anon.name == t
		arr := [3]string{s, t, "x"}
		arr2 := arr
		arr2[0] = "changed"
		ok = ok && arr[0] == s && arr != arr2
	case 10: // method values and expressions, func values in maps, interfaces holding funcs
		r := vxRect{vxNamed{s}, 2, 5}
		f := r.Area
		g := vxRect.Area
		ops := map[string]func(int, int) int{"add": func(a, b int) int { return a + b }, "mul": func(a, b int) int { return a * b }}
		ok = f() == 10 && g(r) == 10 && ops["add"](2, 3) == 5 && ops["mul"](2, 3) == 6
		var nf func()
		ok = ok && nf == nil
	case 11: // channels: unbuffered handshake, select with default, nil channel, close + range, chan of chan
		done := make(chan struct{})
		res := make(chan string)
		go func() {
			res <- s + t
			close(done)
		}()
		v := <-res
		<-done
		ok = v == s+t
		var nilc chan int
		select {
		case <-nilc:
			ok = false
		default:
		}
		cc := make(chan chan int, 1)
		inner := make(chan int, 1)
		cc <- inner
		inner <- 5
		ok = ok && <-(<-cc) == 5
	case 12: // sort.Sort with a user type, sort.Slice on structs, stable
		w := vxByLen{"ccc", "a", "bb"}
		sort.Sort(w)
		ok = w[0] == "a" && w[2] == "ccc"
		type rec struct {
			n string
			k int
		}
		rs := []rec{{"x", 2}, {"y", 1}, {"z", 2}}
		sort.SliceStable(rs, func(i, j int) bool { return rs[i].k < rs[j].k })
		ok = ok && rs[0].n == "y" && rs[1].n == "x" && rs[2].n == "z"
	case 13: // errors: custom type, wrapping, As / Is through interfaces
		var e error = &vxErrKind{3}
		w := fmt.Errorf("ctx %s: %w", s, e)
		var ek *vxErrKind
		ok = errors.As(w, &ek) && ek.code == 3 && errors.Is(w, e) && !errors.Is(w, errors.New("other"))
	case 14: // strings: byte indexing, slicing, comparison, concatenation in loops, conversion
		u := s + "/" + t
		n := 0
		for i := 0; i < len(u); i++ {
			if u[i] == '/' {
				n++
			}
		}
		ok = n == strings.Count(u, "/") && u[len(s)] == '/' && u[:len(s)] == s && u[len(s)+1:] == t
		ok = ok && (s < t || s >= t) && string(u[len(s)]) == "/"
		acc := ""
		for i := 0; i < 3; i++ {
			acc += t
		}
		ok = ok && len(acc) == 3*len(t)
	case 15: // copy semantics of slices vs arrays in calls; append aliasing
		a := []int{1, 2, 3}
		b := a
		b[0] = 9
		ok = a[0] == 9
		c := make([]int, 2, 10)
		d := append(c, 1)
		e := append(c, 2)
		ok = ok && d[2] == 2 && e[2] == 2 // shared backing array
		var z []int
		z = append(z, a...)
		z[1] = 42
		ok = ok && a[1] == 2 && len(z) == 3
		n := copy(a, a[1:])
		ok = ok && n == 2 && a[0] == 2 && a[1] == 3 && a[2] == 3
	case 16: // constants, iota, typed constants, untyped arithmetic
		const (
			A = iota * 10
			B
			C
		)
		type level int
		const (
			low level = iota + 1
			high
		)
		ok = A == 0 && B == 10 && C == 20 && high == 2 && low < high && 1<<10 == 1024 && 7/2 == 3 && 7/2.0 == 3.5
	case 17: // floating point basics (concrete)
		f := 1.5
		f *= 2
		g := float64(len(s)+1) / 2
		h := 3.9
		ok = f == 3.0 && g > 0 && int(h) == 3 && fmt.Sprintf("%.2f", 1.0/3) == "0.33"
	case 18: // runtime panics recovered: nil map write, nil deref, slice bounds, division by zero, failed assertion
		try := func(f func()) (msg string) {
			defer func() {
				if r := recover(); r != nil {
					msg = fmt.Sprint(r)
				}
			}()
			f()
			return ""
		}
		var nm map[string]int
		var np *vxRect
		var ni interface{} = 3
		zero := len(t) - len(t)
		ok = try(func() { nm["a"] = 1 }) != "" && try(func() { _ = np.w }) != "" && try(func() { _ = []int{1}[1+zero:] }) == "" &&
			try(func() { _ = []int{1}[2+zero:] }) != "" && try(func() { _ = 1 / zero }) != "" && try(func() { _ = ni.(string) }) != "" && try(func() {}) == ""
	case 19: // select over several ready channels reaches every case on some path
		a, b := make(chan int, 1), make(chan int, 1)
		a <- 1
		b <- 2
		got := 0
		select {
		case v := <-a:
			got = v
		case v := <-b:
			got = v
		}
		ok = got == 1 || got == 2
	}
	vxAssert(ok, "probe.ok")
	vxReach("probed")
}
