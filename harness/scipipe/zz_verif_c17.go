package scipipe

import "strings"

// C17: streaming outputs deliver the producer's bytes through a FIFO and leave no trace.
// Real Workflow.Run of  prod ({os:s}) -> cons ; the command model makes a FIFO writer and
// a FIFO reader wait for each other and hands the writer's identity to the reader.

func vxStreamWF(n int, streamPath string, twoStreams bool, mixed bool) (*Workflow, *Process, *Process) {
	return vxStreamWFmeta(n, streamPath, twoStreams, mixed, "meta{p:k}.txt")
}

func vxStreamWFmeta(n int, streamPath string, twoStreams bool, mixed bool, metaPath string) (*Workflow, *Process, *Process) {
	wf := newWorkflowWithoutLogging("w", 4*n)
	pat := "vcmd w:{os:s}"
	if twoStreams {
		pat = "vcmd w:{os:s} w:{os:s2}"
	}
	if mixed {
		pat = "vcmd w:{os:s} w:{o:meta}"
	}
	pat += " # {p:k}"
	prod := NewProc(wf, "prod", pat)
	prod.SetOut("s", streamPath)
	vals := []string{}
	for i := 0; i < n; i++ {
		vals = append(vals, string(rune('1'+i)))
	}
	prod.InParam("k").FromStr(vals...)
	cons := NewProc(wf, "cons", "vcmd r:{i:in} w:{o:out}")
	cons.SetOut("out", "{i:in|basename}.c.txt")
	cons.In("in").From(prod.Out("s"))
	if twoStreams {
		prod.SetOut("s2", "t{p:k}.txt")
		cons2 := NewProc(wf, "cons2", "vcmd r:{i:in} w:{o:out}")
		cons2.SetOut("out", "{i:in|basename}.c2.txt")
		cons2.In("in").From(prod.Out("s2"))
	}
	if mixed {
		prod.SetOut("meta", metaPath)
		cp := NewProc(wf, "cp", "vcmd r:{i:in} w:{o:out}")
		cp.SetOut("out", "{i:in}.copy")
		cp.In("in").From(prod.Out("meta"))
	}
	return wf, prod, cons
}

func vxNoFifoOrStreamFile(streamFiles []string) bool {
	for _, p := range vxFSList("/") {
		if vxFSKind(p) == vxFifo {
			return false
		}
	}
	for _, s := range streamFiles {
		if vxFSKind(s) != vxAbsent {
			return false
		}
	}
	return vxNoTempLeft()
}

func VxH17() {
	n := vxGet("n")
	shape := vxGet("shape") // 0 plain, 1 ../ path, 2 absolute path, 3 two streaming ports, 4 streaming + ordinary output, 5 as 4 with the ordinary output in a sub-directory and symbolic map order
	vxCmdFree(false, false)
	stream := "s{p:k}.txt"
	switch shape {
	case 1:
		stream = "../up/s{p:k}.txt"
		if vxGet("dirExists") == 1 {
			vxFSMkdirAll("/up")
		}
	case 2:
		stream = "/abs/d/s{p:k}.txt"
		if vxGet("dirExists") == 1 {
			vxFSMkdirAll("/abs/d")
		}
	}
	if shape == 6 {
		// a regular file (e.g. from the time the port was an ordinary {o:} port) lies at the
		// streaming output path of the first item
		vxFSPut("s1.txt", vxFile, 7)
	}
	meta := "meta{p:k}.txt"
	if shape == 5 {
		meta = "md/sub/meta{p:k}.txt"
		vxMapOrder("createDirs")
	}
	wf, _, _ := vxStreamWFmeta(n, stream, shape == 3, shape == 4 || shape == 5, meta)
	vxPreemptBudget(vxGet("preempt"))
	kind := vxRun(func() { wf.Run() })
	vxAssert(kind == "returned", "C17.run-completes")
	vxReach("ran")
	streamFiles := []string{}
	for i := 0; i < n; i++ {
		k := string(rune('1' + i))
		sf := strings.Replace(stream, "{p:k}", k, 1)
		streamFiles = append(streamFiles, sf)
		out := "s" + k + ".txt.c.txt"
		vxAssert(vxFSKind(out) == vxFile, "C17.consumer-output-present")
	}
	if shape == 6 {
		// the file that was there before is nobody's output of this run: it stays as it was
		vxAssert(vxFSKind("s1.txt") == vxFile && vxFSPreID("s1.txt") == 7, "C17.preexisting-file-at-stream-path-untouched")
		vxAssert(vxNoFifoOrStreamFile(streamFiles[1:]), "C17.no-file-no-fifo-no-tempdir-left")
	} else {
		vxAssert(vxNoFifoOrStreamFile(streamFiles), "C17.no-file-no-fifo-no-tempdir-left")
	}
	// every consumer command read exactly the bytes of a producer command of this run
	prodInv := map[int]bool{}
	nCons := 0
	for i := 0; i < vxInvCount(); i++ {
		if strings.HasPrefix(vxInvCmd(i), "vcmd w:") && !strings.Contains(vxInvCmd(i), " r:") {
			prodInv[i] = true
		}
	}
	for i := 0; i < vxInvCount(); i++ {
		c := vxInvCmd(i)
		if strings.Contains(c, "r:") && (strings.Contains(c, ".c.txt") || strings.Contains(c, ".c2.txt")) { // the stream consumers' commands
			nCons++
			vxAssert(prodInv[vxInvReadInv(i, 0)], "C17.consumer-received-producers-bytes")
		}
	}
	want := n
	if shape == 3 {
		want = 2 * n
		for i := 0; i < n; i++ {
			vxAssert(vxFSKind("t"+string(rune('1'+i))+".txt.c2.txt") == vxFile, "C17.second-stream-consumer-output-present")
		}
	}
	vxAssert(nCons == want, "C17.one-consumer-task-per-streamed-item")
	if shape == 4 || shape == 5 {
		for i := 0; i < n; i++ {
			vxAssert(vxFSKind(strings.Replace(meta, "{p:k}", string(rune('1'+i)), 1)+".copy") == vxFile, "C04.ordinary-output-of-streaming-task-delivered")
		}
	}
	// audit: the consumer's record names the producing task as upstream
	okUp := true
	for i := 0; i < n; i++ {
		k := string(rune('1' + i))
		rec := UnmarshalAuditInfoJSONFile("s" + k + ".txt.c.txt.audit.json")
		up := rec.Upstream[streamFiles[i]]
		if up == nil || up.ProcessName != "prod" {
			okUp = false
		}
	}
	// KF-C17-2 (listed): when the consumer's bookkeeping runs before the producer's, the
	// upstream record is empty
	vxKnown(okUp, "KF-C17-2")
}

// VxH17rerun: re-running the completed workflow terminates and leaves the consumer's
// outputs untouched. KF-C17-1 (listed): it hangs.
func VxH17rerun() {
	vxCmdFree(false, false)
	wf, _, _ := vxStreamWF(1, "s{p:k}.txt", false, false)
	k1 := vxRun(func() { wf.Run() })
	vxAssert(k1 == "returned", "C17.first-run-completes")
	ino := vxFSIno("s1.txt.c.txt")
	wf2, _, _ := vxStreamWF(1, "s{p:k}.txt", false, false)
	k2 := vxRun(func() { wf2.Run() })
	vxReach("reran")
	vxKnown(k2 == "returned", "KF-C17-1")
	vxAssert(vxFSIno("s1.txt.c.txt") == ino, "C17.rerun-leaves-consumer-output-untouched")
}

// VxH17leftover: a FIFO left by a killed run is not adopted (C03 clause for streaming).
func VxH17leftover() {
	vxCmdFree(false, false)
	wf, _, _ := vxStreamWF(1, "s{p:k}.txt", false, false)
	vxKillAt(vxInt("k1", 0, vxGet("N")))
	k1 := vxRun(func() { wf.Run() })
	vxAssume(k1 == "killed")
	vxKillAt(-1)
	// (the FIFO is found by its kind, whatever the library calls it)
	fifoPath := ""
	for _, p := range vxFSList(".") {
		if vxFSKind(p) == vxFifo {
			fifoPath = p
		}
	}
	vxAssume(fifoPath != "")
	// the user removes the temp dirs but forgets the FIFO
	fifo := vxFSIno(fifoPath)
	vxFSRemoveTempDirsOnly()
	vxAssume(vxFSIno(fifoPath) == fifo)
	wf2, _, _ := vxStreamWF(1, "s{p:k}.txt", false, false)
	k2 := vxRun(func() { wf2.Run() })
	vxReach("reran")
	vxAssert(vxAnd(k2 == "exit", vxRunCode() != 0), "C03.leftover-fifo-refused")
}
