package scipipe

// C06 / C07: task slots. Two independent ways of deciding them:
//  (1) VxTcThread extracts, from the real Task.Execute -> IncConcurrentTasks / command /
//      DecConcurrentTasks, the sequence of operations one task performs on the shared slot
//      channel and mutex; `verif` composes N such sequences into a transition system whose
//      schedule is a vector of solver variables (symbolic-schedule BMC, engine/cmd/verif/tc.go);
//  (2) VxH06run runs N real tasks as goroutines with real blocking channel semantics under
//      delay-bounded scheduling and watches the weighted overlap of the commands.

// VxTcThread: one task of `cores` cores on a workflow with `max` slots; kind 0 normal,
// 1 skipped (output exists), 2 streaming output.
func VxTcThread() {
	kind, cores, max := vxGet("kind"), vxGet("cores"), vxGet("max")
	vxCmdFree(false, false)
	wf := newWorkflowWithoutLogging("w", max)
	// the slot semaphore is the (only) channel field of the workflow; it and the mutexes are
	// found structurally so that the harness does not depend on unexported field names
	slots := vxFieldChan(wf, 0)
	vxAssert(vxChanCap(slots) == max, "C06.capacity-is-maxConcurrentTasks")
	pat := "vcmd w:{o:out}"
	if kind == 2 {
		pat = "vcmd x:{os:out}"
	}
	p := NewProc(wf, "p", pat)
	p.SetOut("out", "o.txt")
	p.CoresPerTask = cores
	if kind == 1 {
		vxFSPut("o.txt", vxFile, 1)
	}
	t := NewTask(wf, p, "p", p.CommandPattern, map[string]*FileIP{}, p.PathFuncs, p.PortInfo,
		map[string]string{}, map[string]string{}, "", nil, p.CoresPerTask)
	vxTraceChan(slots)
	vxTraceMutex(nil)
	kindRun := vxRun(func() {
		go t.Execute()
		<-t.Done
		vxTraceMark("D")
	})
	vxAssert(kindRun == "returned", "C06.thread-trace-complete")
	vxReach("traced")
}

// VxH07oversize: a process asking for more cores than the workflow has is rejected at
// start, before any task exists.
func VxH07oversize() {
	max := vxConcrete(vxInt("max", 1, 3))
	cores := vxConcrete(vxInt("cores", 1, 4))
	vxCmdFree(false, false)
	wf := newWorkflowWithoutLogging("w", max)
	src := NewProc(wf, "src", "vcmd w:{o:out}")
	src.SetOut("out", "s.txt")
	p := NewProc(wf, "last", "vcmd r:{i:in} x:../done.txt")
	p.In("in").From(src.Out("out"))
	p.CoresPerTask = cores
	kind := vxRun(func() { wf.Run() })
	vxReach("ran")
	if cores > max {
		vxAssert(vxAnd(kind == "exit", vxRunCode() != 0), "C07.oversize-rejected-not-hanging")
		vxAssert(vxFSKind("done.txt") == vxAbsent, "C07.oversize-no-command-of-that-process")
	} else {
		vxAssert(kind == "returned", "C07.fitting-cores-run")
	}
}

// VxH06run: n real tasks with symbolic cores run concurrently on max slots.
func VxH06run() {
	n, max := vxGet("n"), vxGet("max")
	vxCmdFree(false, false)
	wf := newWorkflowWithoutLogging("w", max)
	tasks := []*Task{}
	cores := []int{}
	for i := 0; i < n; i++ {
		c := vxConcrete(vxInt("cores"+string(rune('0'+i)), 1, max))
		cores = append(cores, c)
		p := NewProc(wf, "p"+string(rune('0'+i)), "vcmd w:{o:out}")
		p.SetOut("out", "o"+string(rune('0'+i))+".txt")
		p.CoresPerTask = c
		tasks = append(tasks, NewTask(wf, p, p.Name(), p.CommandPattern, map[string]*FileIP{}, p.PathFuncs, p.PortInfo,
			map[string]string{}, map[string]string{}, "", nil, c))
	}
	slots0 := vxChanLen(vxFieldChan(wf, 0)) // (a semaphore may count slots in use or free slots)
	vxPreemptBudget(vxGet("preempt"))
	vxSet("maxload", 0)
	kind := vxRun(func() {
		for _, t := range tasks {
			go t.Execute()
		}
		for _, t := range tasks {
			<-t.Done
		}
	})
	vxAssert(kind == "returned", "C07.no-deadlock")
	vxReach("ran")
	vxAssert(vxInvCount() == n, "C06.all-tasks-ran")
	vxAssert(vxChanLen(vxFieldChan(wf, 0)) == slots0, "C06.all-slots-returned")
}

// VxH07proc: k ready tasks of ONE process (real Workflow.Run / Process.Run) on a workflow
// with max >= k slots; the commands are rendezvous commands (each waits until k commands
// have started). Completion proves that the k tasks really executed simultaneously,
// whatever the port buffer size is.
func VxH07proc() {
	k := vxGet("k")
	buf := vxConcrete(vxInt("bufsize", 1, 3))
	extra := vxConcrete(vxInt("extraslots", 0, 1))
	vxSetEnv("SCIPIPE_BUFSIZE", string(rune('0'+buf)))
	vxCmdFree(false, false)
	wf := newWorkflowWithoutLogging("w", k+extra)
	p := NewProc(wf, "p", "vcmd b:"+string(rune('0'+k))+" w:{o:out} n:{p:x}")
	p.SetOut("out", "o{p:x}.txt")
	vals := []string{"1", "2", "3", "4"}[:k]
	p.InParam("x").FromStr(vals...)
	vxPreemptBudget(vxGet("preempt"))
	kind := vxRun(func() { wf.Run() })
	vxReach("ran")
	vxAssert(kind == "returned", "C07.k-fitting-tasks-of-one-process-run-simultaneously")
	vxAssert(vxInvCount() == k, "C07.every-task-ran-once")
}

// VxH06over: k ready tasks of one process, each asking for c cores, on max slots; the
// commands are rendezvous commands (each waits until all k have started). The real
// Workflow.Run decides: if the k tasks fit (k*c <= max) the run completes — they really ran
// at the same time; if they do not fit, they can never all be running, so the run must not
// complete (it blocks, which the executor reports as a deadlock). Optionally the workflow
// also contains a streaming pair. The host's CPU count is an input (runtime.NumCPU).
func VxH06over() {
	k := vxGet("k")
	c := vxConcrete(vxInt("cores", 1, 2))
	max := vxConcrete(vxInt("max", 2, 4))
	stream := vxGet("stream") == 1
	vxAssume(c <= max)
	vxSetEnv("SCIPIPE_BUFSIZE", "2")
	vxCmdFree(false, false)
	wf := newWorkflowWithoutLogging("w", max)
	p := NewProc(wf, "p", "vcmd b:"+string(rune('0'+k))+" w:{o:out} n:{p:x}")
	p.SetOut("out", "o{p:x}.txt")
	p.CoresPerTask = c
	p.InParam("x").FromStr([]string{"1", "2", "3", "4"}[:k]...)
	if stream {
		prod := NewProc(wf, "prod", "vcmd w:{os:s}")
		prod.SetOut("s", "s.txt")
		cons := NewProc(wf, "cons", "vcmd r:{i:in} w:{o:out}")
		cons.SetOut("out", "s.c.txt")
		cons.In("in").From(prod.Out("s"))
	}
	vxPreemptBudget(vxGet("preempt"))
	kind := vxRun(func() { wf.Run() })
	vxReach("ran")
	if k*c > max {
		vxAssert(kind == "deadlock", "C06.tasks-that-do-not-fit-never-run-together")
	} else if !stream {
		vxAssert(kind == "returned", "C07.k-fitting-tasks-of-one-process-run-simultaneously")
	}
}

// VxH07go: the same for Go-function tasks (CustomExecute): k tasks of one process that fit
// into the slots execute at the same time.
func VxH07go() {
	k := vxGet("k")
	wf := newWorkflowWithoutLogging("w", k)
	p := NewProc(wf, "g", "# {p:x}")
	n := 0
	p.CustomExecute = func(t *Task) {
		vxBarrier(k)
		n++
	}
	p.InParam("x").FromStr([]string{"1", "2", "3", "4"}[:k]...)
	vxPreemptBudget(vxGet("preempt"))
	kind := vxRun(func() { wf.Run() })
	vxReach("ran")
	vxAssert(kind == "returned", "C07.k-fitting-go-tasks-run-simultaneously")
	vxAssert(n == k, "C07.every-task-ran-once")
}
