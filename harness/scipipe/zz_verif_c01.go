package scipipe

import "strings"

// C01 / C09 (task and workflow level): outputs appear atomically; a failing task stops
// the workflow. The real Workflow.Run of  a -> b  with symbolic command outcomes (each
// declared write: nothing / partial / complete; exit status; ) and a symbolic kill point
// before any file-system effect.

// vxOutputOK: what may be found at a declared final output path at ANY instant.
func vxOutputOK(path string) bool {
	k := vxFSKind(path)
	if k == vxAbsent {
		return true
	}
	if k != vxFile {
		return false
	}
	if vxFSOrigin(path) == "pre" {
		return true
	}
	if vxFSOrigin(path) != "cmd" {
		return false
	}
	return vxAnd(vxFSComplete(path), vxInvOK(vxFSInv(path)))
}

func vxNoTempLeft() bool {
	for _, p := range vxFSList(".") {
		if strings.HasPrefix(p, vxTempPrefix()) || vxFSKind(p) == vxFifo {
			return false
		}
	}
	return true
}

func vxShapePath(shape int) string {
	switch shape {
	case 1:
		return "sub/dir/a.txt"
	case 2:
		vxFSMkdirAll("/up")
		return "../up/a.txt"
	case 3:
		vxFSMkdirAll("/abs/d")
		return "/abs/d/a.txt"
	}
	return "a.txt"
}

func VxH01wf() {
	shape := vxGet("shape")
	two := vxGet("two")
	outA := vxShapePath(shape)
	outA2 := ""
	if two == 1 {
		outA2 = "a2.txt"
	}
	w := vxTwoStep(outA, outA2, "b.txt")
	vxMapOrder("finalizePaths")
	N := vxGet("N")
	kill := vxInt("kill", -1, N)
	vxKillAt(kill)
	kind := vxRun(func() { w.wf.Run() })
	vxReach("ran-" + kind)
	outs := []string{outA, "b.txt"}
	if two == 1 {
		outs = append(outs, outA2)
	}
	if vxGet("side") == 1 {
		outs = append(outs, "side.txt")
	}
	// C01: at every terminal state (= every instant, since a kill may precede any effect)
	for _, o := range outs {
		vxAssert(vxOutputOK(o), "C01.final-path-absent-or-complete")
	}
	if kind == "killed" {
		return
	}
	vxAssert(vxOps() <= N, "C01.kill-range-covers-the-run")
	allOK := true
	for i := 0; i < vxInvCount(); i++ {
		if !vxConcreteBool(vxInvOK(i)) {
			allOK = false
		}
	}
	if kind == "returned" {
		// C09: completion is reported only when every command succeeded
		vxAssert(allOK, "C09.no-silent-failure")
		for _, o := range outs {
			vxAssert(vxFSKind(o) == vxFile, "C01.all-outputs-present-on-success")
		}
		vxAssert(vxNoTempLeft(), "C05.no-temp-dir-left")
		vxAssert(vxInvCount() == 2, "C04.each-task-once")
		// b read the finalized output of a
		vxAssert(vxInvReadInv(1, 0) == 0, "C01.consumer-read-producer-output")
		return
	}
	vxAssert(vxAnd(kind == "exit", vxRunCode() != 0), "C09.failure-gives-nonzero-exit")
	vxAssert(!allOK, "C09.exit-only-on-failure")
	// the failing task's outputs never appear; dependants do not run
	if vxInvCount() >= 1 && !vxConcreteBool(vxInvOK(0)) {
		vxAssert(vxInvCount() == 1, "C09.dependant-not-executed")
		for _, o := range outs {
			if o != "b.txt" {
				vxAssert(vxFSKind(o) == vxAbsent, "C09.failed-output-not-finalized")
			}
		}
	}
}

// VxH01go: a Go-function process that writes its output through the documented
// task.OutIP(x).Write(...). Known finding KF-C01-1 (listed).
func VxH01go() {
	wf := newWorkflowWithoutLogging("w", 4)
	p := NewProc(wf, "fooer", "{o:foo}")
	p.SetOut("foo", "foo.txt")
	p.CustomExecute = func(t *Task) {
		t.OutIP("foo").Write([]byte("foo\n"))
	}
	kill := vxInt("kill", -1, vxGet("N"))
	vxKillAt(kill)
	kind := vxRun(func() { wf.Run() })
	vxReach("ran-" + kind)
	ok := vxFSKind("foo.txt") == vxAbsent || (kind == "returned" && vxFSOrigin("foo.txt") == "go")
	vxKnown(ok, "KF-C01-1")
	if kind != "killed" {
		vxKnown(kind == "returned", "KF-C01-1")
	}
}

// VxH09path: an invalid output path stops the workflow before any command runs.
func VxH09path() {
	L := vxGet("L")
	vxTraceMode(true)
	P := vxShape(vxStr("P", L, vxClassPrint), "")
	valid, _ := pathIsValid(P)
	vxAssume(vxNot(valid))
	wf := newWorkflowWithoutLogging("w", 4)
	p := NewProc(wf, "p", "vcmd w:{o:out}")
	p.SetOutFunc("out", func(t *Task) string { return P })
	kind := vxRun(func() { wf.Run() })
	vxReach("tried")
	vxAssert(vxAnd(kind == "exit", vxRunCode() != 0), "C09.invalid-output-path-stops")
	vxAssert(vxInvCount() == 0, "C09.invalid-output-path-no-command")
}
