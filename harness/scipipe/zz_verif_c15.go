package scipipe

import (
	"strings"
)

// C15: placeholders and path modifiers expand as documented (docs/writing_workflows.md).
// Differential harness: the real NewTask / formatCommand / SetOut path functions / default
// path function against a short reference of the documented rules, on a fixed set of
// patterns with symbolic values.

// ---- reference implementation of the documented modifiers (independent of common.go)

func vxRefBasename(v string) string {
	if i := strings.LastIndex(v, "/"); i >= 0 {
		return v[i+1:]
	}
	return v
}

func vxRefDirname(v string) string {
	if i := strings.LastIndex(v, "/"); i >= 0 {
		return v[:i]
	}
	return v
}

// vxRefTrim removes suf from the end of v. The documentation is silent on the case
// where suf is the whole value; vxRefTrimAlt gives the other admissible outcome.
func vxRefTrim(v, suf string) string {
	if len(v) > len(suf) && strings.HasSuffix(v, suf) {
		return v[:len(v)-len(suf)]
	}
	return v
}

func vxRefTrimAlt(v, suf string) string {
	if strings.HasSuffix(v, suf) {
		return v[:len(v)-len(suf)]
	}
	return v
}

func vxRefPrefix(v string) string {
	if len(v) > 0 && v[0] == '/' {
		return v
	}
	return "../" + v
}

type vxCase15 struct {
	pattern string
	shape   string // which inputs get a shape case split: i(n), p(ar), t(ag)
	// exp returns the admissible expansions (one or two)
	exp func(in, par, tag, outTmp string) (string, string)
}

func vxOne(s string) (string, string) { return s, s }

func vxCases15() []vxCase15 {
	return []vxCase15{
		{"cat {i:in} > {o:out}", "", func(in, par, tag, o string) (string, string) {
			return vxOne("cat " + vxRefPrefix(in) + " > " + o)
		}},
		{"cat {i:in} {i:in} > {o:out} # {p:par}", "", func(in, par, tag, o string) (string, string) {
			return vxOne("cat " + vxRefPrefix(in) + " " + vxRefPrefix(in) + " > " + o + " # " + par)
		}},
		{"echo {i:in|basename} {p:par} > {o:out}", "i", func(in, par, tag, o string) (string, string) {
			return vxOne("echo " + vxRefBasename(in) + " " + par + " > " + o)
		}},
		{"echo {i:in|dirname} > {o:out}", "i", func(in, par, tag, o string) (string, string) {
			return vxOne("echo " + vxRefPrefix(vxRefDirname(in)) + " > " + o)
		}},
		{"echo {i:in|%.txt} > {o:out}", "i", func(in, par, tag, o string) (string, string) {
			return "echo " + vxRefPrefix(vxRefTrim(in, ".txt")) + " > " + o, "echo " + vxRefPrefix(vxRefTrimAlt(in, ".txt")) + " > " + o
		}},
		{"echo {i:in|basename|%.t} > {o:out}", "i", func(in, par, tag, o string) (string, string) {
			return "echo " + vxRefTrim(vxRefBasename(in), ".t") + " > " + o, "echo " + vxRefTrimAlt(vxRefBasename(in), ".t") + " > " + o
		}},
		{"echo {i:in|%.t|basename} > {o:out}", "i", func(in, par, tag, o string) (string, string) {
			return "echo " + vxRefBasename(vxRefTrim(in, ".t")) + " > " + o, "echo " + vxRefBasename(vxRefTrimAlt(in, ".t")) + " > " + o
		}},
		{"echo {i:in|dirname|basename} > {o:out}", "i", func(in, par, tag, o string) (string, string) {
			return vxOne("echo " + vxRefBasename(vxRefDirname(in)) + " > " + o)
		}},
		{"echo {i:in|s/a/bb/} > {o:out}", "i", func(in, par, tag, o string) (string, string) {
			// "simple search and replace": first occurrence or every occurrence
			return "echo " + vxRefPrefix(strings.Replace(in, "a", "bb", 1)) + " > " + o, "echo " + vxRefPrefix(strings.Replace(in, "a", "bb", -1)) + " > " + o
		}},
		{"echo {p:par|%.x} {t:tag} > {o:out}", "p", func(in, par, tag, o string) (string, string) {
			return "echo " + vxRefTrim(par, ".x") + " " + tag + " > " + o, "echo " + vxRefTrimAlt(par, ".x") + " " + tag + " > " + o
		}},
		{"echo {t:tag|basename}{p:par} > {o:out} < {i:in}", "t", func(in, par, tag, o string) (string, string) {
			return vxOne("echo " + vxRefBasename(tag) + par + " > " + o + " < " + vxRefPrefix(in))
		}},
	}
}

func vxInputs15(L int, shape string) (in, par, tag string) {
	// every input gets a case split on its length; inputs that modifiers look into also
	// on the positions of '/' and '.'
	in = vxShape(vxStr("in", L, vxClassPath), "")
	if strings.Contains(shape, "i") {
		in = vxShape(in, "/.")
	}
	valid, _ := pathIsValid(in)
	vxAssume(valid)
	vxAssume(vxProperFile(in))
	V := vxGet("V")
	if V == 0 {
		V = 3
	}
	par = vxShape(vxStr("par", V, vxClassValue), "")
	if strings.Contains(shape, "p") {
		par = vxShape(par, "/.")
	}
	tag = vxShape(vxStr("tag", V, vxClassValue), "")
	if strings.Contains(shape, "t") {
		tag = vxShape(tag, "/.")
	}
	return
}

// VxH15cmd: command patterns.
func VxH15cmd() {
	L := vxGet("L")
	vxTraceMode(true)
	cases := vxCases15()
	k := vxGet("k") // pattern index (one exploration per pattern)
	cs := cases[k]
	in, par, tag := vxInputs15(L, cs.shape)
	vxAssume(vxAnd(par != "", tag != ""))
	wf := newWorkflowWithoutLogging("w", 4)
	p := NewProc(wf, "p", cs.pattern)
	p.SetOut("out", "o.txt")
	inIP, err := NewFileIP(in)
	vxAssume(err == nil)
	inIPs := map[string]*FileIP{}
	if _, ok := p.PortInfo["in"]; ok {
		inIPs["in"] = inIP
	}
	var t *Task
	kind := vxRun(func() {
		t = NewTask(wf, p, "p", p.CommandPattern, inIPs, p.PathFuncs, p.PortInfo,
			map[string]string{"par": par}, map[string]string{"tag": tag}, "", nil, 1)
	})
	if strings.Contains(cs.pattern, "{i:in|dirname}") && !vxIsSym(in[:1]) && in[0] == '/' && strings.LastIndex(in, "/") == 0 {
		// KF-C15-1 (listed): dirname of a file directly below the root is the empty string
		vxKnown(kind == "returned", "KF-C15-1")
		return
	}
	vxAssert(kind == "returned", "C15.task-formed")
	vxReach("task-built")
	e1, e2 := cs.exp(in, par, tag, "o.txt")
	vxAssert(vxOr(t.Command == e1, t.Command == e2), "C15.command-expansion")
	vxAssert(vxNot(vxContains(t.Command, "{")), "C15.no-placeholder-left")
}

// VxH15missing: a missing parameter / tag / input value stops the workflow.
func VxH15missing() {
	vxTraceMode(true)
	which := vxChoice("missing", 4)
	wf := newWorkflowWithoutLogging("w", 4)
	p := NewProc(wf, "p", "echo {p:par} {t:tag} {i:in} > {o:out}")
	p.SetOut("out", "o.txt")
	inIP, _ := NewFileIP("a.txt")
	inIPs := map[string]*FileIP{"in": inIP}
	params := map[string]string{"par": "v"}
	tags := map[string]string{"tag": "w"}
	switch which {
	case 0:
		params["par"] = ""
	case 1:
		delete(params, "par")
	case 2:
		delete(tags, "tag")
	case 3:
		delete(inIPs, "in")
	}
	returned := false
	kind := vxRun(func() {
		NewTask(wf, p, "p", p.CommandPattern, inIPs, p.PathFuncs, p.PortInfo, params, tags, "", nil, 1)
		returned = true
	})
	vxReach("tried")
	vxAssert(vxAnd(kind == "exit", vxRunCode() != 0), "C15.missing-value-stops")
	vxAssert(!returned, "C15.missing-value-no-task")
}

// VxH15out: output path patterns (SetOut) and the default output name.
func VxH15out() {
	L := vxGet("L")
	vxTraceMode(true)
	in, par, tag := vxInputs15(L, "i")
	vxAssume(vxAnd(par != "", tag != ""))
	in2 := vxShape(vxStr("in2", 2, vxClassName), ".")
	vxAssume(vxAnd(in2 != "", vxAnd(in2 != ".", in2 != "..")))
	wf := newWorkflowWithoutLogging("w", 4)
	p := NewProc(wf, "My Proc", "cat {i:in} {i:zz} {p:par} > {o:out} # {o:dflt|.csv}")
	type oc struct {
		pat string
		exp func() (string, string)
	}
	outs := []oc{
		{"{i:in}.x.txt", func() (string, string) { return vxOne(in + ".x.txt") }},
		{"{i:in|%.txt}_w.txt", func() (string, string) { return vxRefTrim(in, ".txt") + "_w.txt", vxRefTrimAlt(in, ".txt") + "_w.txt" }},
		{"{i:in|dirname}/n.{p:par}.txt", func() (string, string) { return vxOne(vxRefDirname(in) + "/n." + par + ".txt") }},
		{"out/{i:in|basename}.{t:tag}", func() (string, string) { return vxOne("out/" + vxRefBasename(in) + "." + tag) }},
		{"{p:par}_{p:par}_{i:zz|basename}", func() (string, string) { return vxOne(par + "_" + par + "_" + vxRefBasename(in2)) }},
	}
	k := vxChoice("outpat", len(outs)+1)
	if k < len(outs) {
		p.SetOut("out", outs[k].pat)
	}
	inIP, err := NewFileIP(in)
	vxAssume(err == nil)
	in2IP, err2 := NewFileIP(in2)
	vxAssume(err2 == nil)
	// map iteration order is a symbolic choice at every `range` (vxMapOrder below): the
	// result must not depend on it
	inIPs := map[string]*FileIP{}
	params := map[string]string{}
	tags := map[string]string{}
	inIPs["zz"] = in2IP
	inIPs["in"] = inIP
	params["par"] = par
	params["aa"] = "1"
	tags["tag"] = tag
	tags["b"] = "2"
	var t *Task
	vxMapOrder("*")
	kind := vxRun(func() {
		t = &Task{Name: "My Proc", InIPs: inIPs, Params: params, Tags: tags, Process: p, workflow: wf}
	})
	_ = kind
	if k < len(outs) {
		got := ""
		kind = vxRun(func() { got = p.PathFuncs["out"](t) })
		vxAssert(kind == "returned", "C15.outpath-formed")
		e1, e2 := outs[k].exp()
		vxReach("outpath")
		vxAssert(vxOr(got == e1, got == e2), "C15.outpath-expansion")
		return
	}
	// default name: input base names (port order), sanitised process name, name_value of
	// parameters and tags (sorted by name), port name, extension; joined by dots
	got := ""
	kind = vxRun(func() { got = p.PathFuncs["dflt"](t) })
	vxAssert(kind == "returned", "C15.default-formed")
	stem := vxRefBasename(in) + "." + vxRefBasename(in2) + ".my_proc.aa_1.par_" + par + ".b_2.tag_" + tag
	vxReach("default")
	vxAssert(got == stem+".dflt.csv", "C15.default-name")
	// the second out-port is default-named too: every port gets its own name and extension
	got2 := ""
	vxMapOrderOff()
	kind = vxRun(func() { got2 = p.PathFuncs["out"](t) })
	vxAssert(kind == "returned", "C15.default-formed")
	vxAssert(got2 == stem+".out", "C15.default-name")
}
