package scipipe

import "strings"

// C14: temp directories are injective in the task identity, stable, and a single
// path segment of at most 255 bytes.

func vxMkTask14(name string, inPaths map[string]string, params, tags map[string]string) *Task {
	inIPs := map[string]*FileIP{}
	for k, p := range inPaths {
		ip, err := NewFileIP(p)
		vxAssume(err == nil)
		inIPs[k] = ip
	}
	return NewTask(nil, nil, name, "echo", inIPs, nil, nil, params, tags, "", nil, 1)
}

// VxH14a: one in-port, one param: identities differ => temp dirs differ, except for the
// known class KF-C14-1 (reference pre-images concatenate to the same bytes).
func VxH14a() {
	L := vxGet("L")
	vxTraceMode(true)
	name := "p"
	p1, p2 := vxStr("p1", L, vxClassSmall), vxStr("p2", L, vxClassSmall)
	vxAssume(vxCleanPath(p1))
	vxAssume(vxCleanPath(p2))
	v1, v2 := vxStr("v1", 2, vxClassSmall), vxStr("v2", 2, vxClassSmall)
	t1 := vxMkTask14(name, map[string]string{"in": p1}, map[string]string{"k": v1}, nil)
	t2 := vxMkTask14(name, map[string]string{"in": p2}, map[string]string{"k": v2}, nil)
	differ := vxOr(p1 != p2, v1 != v2)
	d1, d2 := t1.TempDir(), t2.TempDir()
	vxReach("both-built")
	sameRef := vxRefPre14(p1, v1) == vxRefPre14(p2, v2)
	// KF-C14-1: components that concatenate to the same bytes collide (listed known finding)
	vxKnown(vxImplies(vxAnd(differ, sameRef), d1 != d2), "KF-C14-1")
	vxAssert(vxImplies(differ, vxOr(sameRef, d1 != d2)), "C14.injective")
	vxAssert(vxImplies(vxNot(differ), d1 == d2), "C14.stable")
}

// vxRefPre14 is the reference pre-image of the known-finding class KF-C14-1: all identity
// components in canonical order with path separators removed (what a join with the empty
// string cannot distinguish).
func vxRefPre14(p, v string) string {
	return vxIte(p == ".", "", strings.ReplaceAll(p, "/", "")) + "k_" + v
}

func VxH14len() {
	n := vxInt("n", vxGet("lo"), vxGet("hi"))
	nn := vxConcrete(n)
	name := ""
	for i := 0; i < nn; i++ {
		name += "a"
	}
	t := vxMkTask14(name, nil, nil, nil)
	d := t.TempDir()
	vxReach("built")
	vxAssert(len(d) <= 255, "C14.len")
	vxAssert(vxNot(vxContains(d, "/")), "C14.segment")
}
