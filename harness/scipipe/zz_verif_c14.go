package scipipe

import "strings"

// C14: temp directories are injective in the task identity, stable, and a single
// path segment of at most 255 bytes.

func vxMkTask14(name string, inPaths map[string]string, params, tags map[string]string) *Task {
	inIPs := map[string]*FileIP{}
	for k, p := range inPaths {
		ip, err := NewFileIP(p)
		vxAssume(err == nil)
		inIPs[k] = ip
	}
	return NewTask(nil, nil, name, "echo", inIPs, nil, nil, params, tags, "", nil, 1)
}

// VxH14a: one in-port, one param: identities differ => temp dirs differ, except for the
// known class KF-C14-1 (reference pre-images concatenate to the same bytes).
func VxH14a() {
	L := vxGet("L")
	vxTraceMode(true)
	name := "p"
	p1, p2 := vxStr("p1", L, vxClassSmall), vxStr("p2", L, vxClassSmall)
	vxAssume(vxCleanPath(p1))
	vxAssume(vxCleanPath(p2))
	// parameter values may contain blanks (and differ only in them)
	v1, v2 := vxStr("v1", 2, vxClassSmallWS), vxStr("v2", 2, vxClassSmallWS)
	t1 := vxMkTask14(name, map[string]string{"in": p1}, map[string]string{"k": v1}, nil)
	t2 := vxMkTask14(name, map[string]string{"in": p2}, map[string]string{"k": v2}, nil)
	differ := vxOr(p1 != p2, v1 != v2)
	d1, d2 := t1.TempDir(), t2.TempDir()
	vxReach("both-built")
	sameRef := vxRefPre14(p1, v1) == vxRefPre14(p2, v2)
	// KF-C14-1: components that concatenate to the same bytes collide (listed known finding)
	vxKnown(vxImplies(vxAnd(differ, sameRef), d1 != d2), "KF-C14-1")
	vxAssert(vxImplies(differ, vxOr(sameRef, d1 != d2)), "C14.injective")
	vxAssert(vxImplies(vxNot(differ), d1 == d2), "C14.stable")
}

// vxRefPre14 is the reference pre-image of the known-finding class KF-C14-1: all identity
// components in canonical order with path separators removed (what a join with the empty
// string cannot distinguish).
func vxRefPre14(p, v string) string {
	return vxIte(p == ".", "", strings.ReplaceAll(p, "/", "")) + "k_" + v
}

func VxH14len() {
	n := vxInt("n", vxGet("lo"), vxGet("hi"))
	nn := vxConcrete(n)
	name := ""
	for i := 0; i < nn; i++ {
		name += "a"
	}
	t := vxMkTask14(name, nil, nil, nil)
	d := t.TempDir()
	vxReach("built")
	vxAssert(len(d) <= 255, "C14.len")
	vxAssert(vxNot(vxContains(d, "/")), "C14.segment")
}

// VxH14b: richer identities: an in-port, a tag, and a joined sub-stream member. Any
// difference in any component gives a different temp dir (modulo KF-C14-1), and the name
// does not depend on map iteration order.
func VxH14b() {
	L := vxGet("L")
	vxTraceMode(true)
	mk := func(suffix string) (*Task, string, bool) {
		a := vxStr("a"+suffix, L, vxClassSmall)
		tg := vxStr("t"+suffix, 2, vxClassSmall)
		sub := vxStr("s"+suffix, L, vxClassSmall)
		vxAssume(vxAnd(vxCleanPath(a), vxCleanPath(sub)))
		ipa, e1 := NewFileIP(a)
		ips, e3 := NewFileIP(sub)
		vxAssume(e1 == nil && e3 == nil)
		// the joined in-port z receives its member through the carrier IP's sub-stream, the
		// way NewTask collects it (nothing is poked into the task afterwards)
		carrier, e4 := NewFileIP("c")
		vxAssume(e4 == nil)
		go func() {
			carrier.SubStream.Send(ips)
			close(carrier.SubStream.Chan)
		}()
		t := NewTask(nil, nil, "p", "echo", map[string]*FileIP{"x": ipa, "z": carrier}, nil,
			map[string]*PortInfo{"z": {portType: "i", join: true, joinSep: ","}},
			map[string]string{}, map[string]string{"tg": tg}, "", nil, 1)
		ref := vxRef14(a) + vxRef14(sub) + "tg_" + tg
		return t, ref, true
	}
	t1, r1, _ := mk("1")
	t2, r2, _ := mk("2")
	vxMapOrder("sortedFileIPMapKeys,sortedStringMapKeys,sortedFileIPSliceMapKeys")
	d1, d2 := t1.TempDir(), t2.TempDir()
	d1again := t1.TempDir()
	vxReach("both-built")
	vxAssert(d1 == d1again, "C14.stable-under-map-order")
	same := vxAnd(t1.InIPs["x"].Path() == t2.InIPs["x"].Path(),
		vxAnd(t1.Tags["tg"] == t2.Tags["tg"], t1.subStreamIPs["z"][0].Path() == t2.subStreamIPs["z"][0].Path()))
	vxKnown(vxImplies(vxAnd(vxNot(same), r1 == r2), d1 != d2), "KF-C14-1")
	vxAssert(vxImplies(vxNot(same), vxOr(r1 == r2, d1 != d2)), "C14.injective-all-components")
	vxAssert(vxImplies(same, d1 == d2), "C14.stable")
}

func vxRef14(p string) string {
	return vxIte(p == ".", "", strings.ReplaceAll(p, "/", ""))
}

// VxH14name: the process name is part of the identity, and whatever the name, the temp
// dir is one path segment. Two tasks that differ only in their (symbolic) process names.
func VxH14name() {
	L := vxGet("L")
	vxTraceMode(true)
	n1 := vxShape(vxStr("n1", L, vxClassPrint), "")
	n2 := vxShape(vxStr("n2", L, vxClassPrint), "")
	vxAssume(vxAnd(n1 != "", n2 != ""))
	t1 := vxMkTask14(n1, map[string]string{"in": "d/x.txt"}, map[string]string{"k": "v"}, nil)
	t2 := vxMkTask14(n2, map[string]string{"in": "d/x.txt"}, map[string]string{"k": "v"}, nil)
	d1, d2 := t1.TempDir(), t2.TempDir()
	vxReach("both-built")
	vxAssert(vxImplies(n1 != n2, d1 != d2), "C14.process-name-is-part-of-identity")
	vxAssert(vxImplies(n1 == n2, d1 == d2), "C14.stable")
	vxAssert(vxNot(vxContains(d1, "/")), "C14.segment")
	vxAssert(vxAnd(d1 != ".", d1 != ".."), "C14.segment")
	vxAssert(len(d1) <= 255, "C14.len")
}

// VxH14keys: the temp dir of one task does not depend on map iteration order, whatever the
// (symbolic, one-byte) names of its two parameters or tags are — in particular for names
// that a sloppy ordering would consider equal.
func VxH14keys() {
	vxTraceMode(true)
	k1 := vxShape(vxStr("k1", 1, vxClassName), "")
	k2 := vxShape(vxStr("k2", 1, vxClassName), "")
	vxAssume(vxAnd(k1 != "", vxAnd(k2 != "", k1 != k2)))
	params, tags := map[string]string{}, map[string]string{}
	if vxChoice("where", 2) == 0 {
		params[k1] = "x"
		params[k2] = "y"
	} else {
		tags[k1] = "x"
		tags[k2] = "y"
	}
	t := vxMkTask14("p", map[string]string{"in": "d/x.txt"}, params, tags)
	vxMapOrder("sortedStringMapKeys")
	d1 := t.TempDir()
	d2 := t.TempDir()
	vxReach("both-built")
	vxAssert(d1 == d2, "C14.stable-under-map-order")
}
