package scipipe

import (
	"path/filepath"
	"strings"
)

// C13: a file written at {o:x} ends up exactly at the declared path; {i:y} resolves, from
// inside the task's temp directory, to the input file; extra files keep their relative place.
//
// The oracles are phrased with lexical path resolution (filepath.Clean of the path joined
// to the directory it is interpreted in), not with the strings scipipe happens to produce.

const vxCwd = "/w"

// vxResolve: the file a (possibly relative) path names when used in directory dir.
func vxResolve(dir, p string) string {
	if len(p) > 0 && p[0] == '/' {
		return filepath.Clean(p)
	}
	return filepath.Clean(dir + "/" + p)
}

func vxNewProc13(cmd string) (*Workflow, *Process) {
	wf := newWorkflowWithoutLogging("w", 4)
	p := NewProc(wf, "p", cmd)
	return wf, p
}

// vxArg extracts the n-th space separated word of a command (symbolic-friendly: the
// commands used here have a fixed concrete prefix before each argument).
func vxAfter(cmd, prefix string) string {
	vxAssume(vxHasPrefix(cmd, prefix))
	return cmd[len(prefix):]
}

// VxH13in: the string substituted for {i:in}, used inside the temp dir, names the input file.
func VxH13in() {
	L := vxGet("L")
	vxTraceMode(true)
	q := vxShape(vxStr("q", L, vxGet("class")), "/.")
	valid, _ := pathIsValid(q)
	vxAssume(valid)
	// an input *file*: its last segment is a proper name
	vxAssume(vxProperFile(q))
	vxAssume(vxDotDotOnlyLeading(q))
	wf, p := vxNewProc13("vcmd r:{i:in} w:{o:out}")
	p.SetOut("out", "o.txt")
	in, err := NewFileIP(q)
	vxAssume(err == nil)
	t := NewTask(wf, p, "p", p.CommandPattern, map[string]*FileIP{"in": in}, p.PathFuncs, p.PortInfo,
		map[string]string{}, map[string]string{}, "", nil, 1)
	arg := vxAfter(t.Command, "vcmd r:")
	vxAssume(vxHasSuffix(arg, " w:o.txt"))
	arg = arg[:len(arg)-len(" w:o.txt")]
	vxReach("task-built")
	// the temp dir is one segment directly below the working directory (C14)
	tmp := vxCwd + "/T"
	vxAssert(vxResolve(tmp, arg) == vxResolve(vxCwd, q), "C13.input-resolves")
}

var _ = strings.Contains

// vxProperFile: p names a file (its last segment is a proper name).
func vxProperFile(p string) bool {
	bad := vxOr(vxHasSuffix(p, "/"), vxOr(p == ".", vxOr(p == "..", vxOr(vxHasSuffix(p, "/."), vxHasSuffix(p, "/..")))))
	return vxNot(bad)
}

// vxDotDotOnlyLeading: every ".." segment of p is a leading segment of a relative path
// (structural characters of p are concrete after vxShape, so this is plain Go).
func vxDotDotOnlyLeading(p string) bool {
	leading := len(p) == 0 || p[0] != '/'
	i := 0
	for i < len(p) {
		j := i
		for j < len(p) && p[j] != '/' {
			j++
		}
		seg := p[i:j]
		if seg == ".." {
			if !leading {
				return false
			}
		} else if j > i {
			leading = false
		}
		i = j + 1
	}
	return true
}

// vxHasInnerDotDotSlash: "../" occurs where it is not a whole segment (e.g. "a../b"):
// the class of known finding KF-C13-2.
func vxHasInnerDotDotSlash(p string) bool {
	for i := 1; i+3 <= len(p); i++ {
		if p[i] == '.' && p[i+1] == '.' && p[i+2] == '/' && p[i-1] != '/' {
			return true
		}
	}
	return false
}

// VxH13out: the real Task.Execute with a symbolic output path P (trace-mode environment:
// every file-system call and the command are recorded with their symbolic arguments).
func VxH13out() {
	vxH13out(vxShape(vxStr("P", vxGet("L"), vxGet("class")), "/._"))
}

// VxH13outTpl: output paths that contain text looking like scipipe's internal
// placeholders, with short symbolic names around it.
func VxH13outTpl() {
	L := vxGet("L")
	a := vxShape(vxStr("a", L, vxClassName), "_.")
	b := vxShape(vxStr("b", L, vxClassName), "_.")
	vxAssume(vxAnd(a != "", b != ""))
	P := ""
	switch vxChoice("tpl", 8) {
	case 0:
		P = a + "__parent__" + b
	case 1:
		P = "__parent__" + a
	case 2:
		P = a + "/__fsroot__/" + b
	case 3:
		P = "__fsroot__/" + a
	case 4:
		P = "../" + a + "__parent__" + b
	case 5:
		P = "/" + a + "/__fsroot__" + b
	case 6:
		P = a + "/" + b + "__parent__"
	case 7:
		P = "../../" + a + "/" + b
	}
	vxH13out(P)
}

func vxH13out(P string) {
	vxTraceMode(true)
	vxCmdFree(false, false) // the command succeeds and writes its output completely
	valid, _ := pathIsValid(P)
	vxAssume(valid)
	vxAssume(vxProperFile(P))
	vxAssume(vxDotDotOnlyLeading(P)) // "x/../y" style paths are outside the bounds
	if !vxIsSym(P) {
		// destination directories outside the working directory are assumed to exist
		d := filepath.Dir(vxResolve(vxCwd, P))
		if !strings.HasPrefix(d+"/", vxCwd+"/") {
			vxFSMkdirAll(d)
		}
	}
	wf, p := vxNewProc13("vcmd w:{o:out}")
	p.SetOutFunc("out", func(t *Task) string { return P })
	// os.Stat of symbolic paths in the successful scenario, by rule (not by call order, so
	// that a change which stats once more or once less is not misread): a path exists iff
	// this trace created it, or it lies in the task's temp dir and the command has run
	vxTraceStatRule("\x00")
	t := NewTask(wf, p, "p", p.CommandPattern, map[string]*FileIP{}, p.PathFuncs, p.PortInfo,
		map[string]string{}, map[string]string{}, "", nil, 1)
	tmp := t.TempDir()
	vxAssume(vxNot(vxIsSym(tmp)))
	vxTraceStatRule(tmp)
	ev0 := vxEvCount()
	kind := vxRun(func() {
		go t.Execute()
		<-t.Done
	})
	if vxHasInnerDotDotSlash(P) {
		// KF-C13-2 (listed): a segment ending in ".." is encoded as if it were a parent reference
		vxKnown(kind == "returned", "KF-C13-2")
		return
	}
	vxAssert(kind == "returned", "C13.execute-completes")
	vxReach("executed")
	// the command
	S := ""
	execAt := -1
	for i := ev0; i < vxEvCount(); i++ {
		if vxEvOp(i) == "exec" {
			c := vxEvArg(i, 0)
			pre := "cd " + tmp + " && vcmd w:"
			vxAssert(vxAnd(vxHasPrefix(c, pre), vxHasSuffix(c, " && cd ..")), "C13.command-shape")
			S = c[len(pre) : len(c)-len(" && cd ..")]
			execAt = i
		}
	}
	vxAssert(execAt >= 0, "C13.command-ran")
	tmpAbs := vxCwd + "/" + tmp
	target := vxResolve(tmpAbs, S) // the file the command writes
	vxAssert(vxHasPrefix(target, tmpAbs+"/"), "C13.write-confined-to-tempdir")
	// its directory was created before the command ran
	dirOK := false
	for i := ev0; i < execAt; i++ {
		if vxEvOp(i) == "mkdirall" {
			d := vxResolve(vxCwd, vxEvArg(i, 0))
			dirOK = vxOr(dirOK, vxOr(d == filepath.Dir(target), vxHasPrefix(d, filepath.Dir(target)+"/")))
		}
	}
	vxAssert(dirOK, "C13.tempdir-subdir-created")
	// that very file is renamed to exactly P
	moved := false
	for i := execAt; i < vxEvCount(); i++ {
		if vxEvOp(i) == "rename" {
			from, to := vxResolve(vxCwd, vxEvArg(i, 0)), vxResolve(vxCwd, vxEvArg(i, 1))
			moved = vxOr(moved, vxAnd(from == target, to == vxResolve(vxCwd, P)))
		}
	}
	vxAssert(moved, "C13.moved-to-declared-path")
}


// VxH13extra: files the command leaves in its working directory besides the declared
// outputs are moved to the same relative location below the workflow's working directory.
func VxH13extra() {
	L := vxGet("L")
	vxTraceMode(true)
	vxCmdFree(false, false)
	a := vxShape(vxStr("a", L, vxClassName), "_.")
	b := vxShape(vxStr("b", L, vxClassName), "_.")
	vxAssume(vxAnd(a != "", b != ""))
	vxAssume(vxAnd(vxAnd(a != ".", a != ".."), vxAnd(b != ".", b != "..")))
	X := a
	shape := vxChoice("shape", 4)
	switch shape {
	case 1:
		X = a + "/" + b
	case 2:
		X = a + "__parent__" + b
	case 3:
		X = "__fsroot__/" + a
	}
	wf, p := vxNewProc13("vcmd w:{o:out}")
	p.SetOut("out", "o.txt")
	t := NewTask(wf, p, "p", p.CommandPattern, map[string]*FileIP{}, p.PathFuncs, p.PortInfo,
		map[string]string{}, map[string]string{}, "", nil, 1)
	tmp := t.TempDir()
	vxWalkExtra(tmp + "/" + X)
	// what Lstat (filepath.Walk) reports for it is the solver's choice: regular file, symbolic
	// link (`ln -s out latest`), named pipe or socket - "additional files" are not only regular ones
	vxWalkExtraKind(vxInt("xkind", 0, 3))
	vxTraceStatSeq("1") // directory of the extra file's destination exists
	ev0 := vxEvCount()
	kind := vxRun(func() {
		go t.Execute()
		<-t.Done
	})
	vxAssert(kind == "returned", "C13.extra.execute-completes")
	vxReach("executed")
	moved := false
	for i := ev0; i < vxEvCount(); i++ {
		if vxEvOp(i) == "rename" {
			from, to := vxEvArg(i, 0), vxEvArg(i, 1)
			moved = vxOr(moved, vxAnd(from == tmp+"/"+X, to == X))
		}
	}
	if shape >= 2 {
		// KF-C13-1 (listed): names that look like scipipe's internal placeholders are decoded
		vxKnown(moved, "KF-C13-1")
		return
	}
	// outside the literal placeholder shapes, the class predicate of KF-C13-1 still applies
	inClass := vxOr(vxContains(X, "__parent__"), vxHasPrefix(X, "__fsroot__/"))
	vxAssert(vxOr(inClass, moved), "C13.extra-file-keeps-relative-place")
}

func vxIsSymStr(s string) bool { return vxIsSym(s) }

// VxH13two: one task with two outputs in two (symbolic) sibling directories, e.g. res/ and
// res2/: each file is written inside the temp dir into a directory that exists, and ends up
// at its declared path.
func VxH13two() {
	L := vxGet("L")
	vxTraceMode(true)
	vxCmdFree(false, false)
	d1 := vxShape(vxStr("d1", L, vxClassName), ".")
	d2 := vxShape(vxStr("d2", L, vxClassName), ".")
	// directory names with at least one non-dot character (so they stay symbolic), not
	// ending in ".." (that is the class of known finding KF-C13-2)
	vxAssume(vxAnd(vxIsSymStr(d1), vxIsSymStr(d2)))
	vxAssume(d1 != d2)
	P1, P2 := d1+"/a.txt", d2+"/b.txt"
	vxAssume(!vxHasInnerDotDotSlash(P1) && !vxHasInnerDotDotSlash(P2))
	wf, p := vxNewProc13("vcmd w:{o:o1} w:{o:o2}")
	p.SetOutFunc("o1", func(t *Task) string { return P1 })
	p.SetOutFunc("o2", func(t *Task) string { return P2 })
	vxTraceStatRule("\x00")
	t := NewTask(wf, p, "p", p.CommandPattern, map[string]*FileIP{}, p.PathFuncs, p.PortInfo,
		map[string]string{}, map[string]string{}, "", nil, 1)
	tmp := t.TempDir()
	vxAssume(vxNot(vxIsSym(tmp)))
	// successful scenario: no existing outputs, both temp files present after the command
	vxTraceStatRule(tmp)
	vxMapOrder("createDirs,anyOutputsExist,ensureAllOutputsExist,finalizePaths")
	ev0 := vxEvCount()
	kind := vxRun(func() {
		go t.Execute()
		<-t.Done
	})
	vxAssert(kind == "returned", "C13.two.execute-completes")
	vxReach("executed")
	tmpAbs := vxCwd + "/" + tmp
	execAt := -1
	for i := ev0; i < vxEvCount(); i++ {
		if vxEvOp(i) == "exec" {
			execAt = i
		}
	}
	vxAssert(execAt >= 0, "C13.two.command-ran")
	for _, P := range []string{P1, P2} {
		target := vxResolve(tmpAbs, P) // relative paths inside the working directory keep their shape
		dirOK := false
		for i := ev0; i < execAt; i++ {
			if vxEvOp(i) == "mkdirall" {
				d := vxResolve(vxCwd, vxEvArg(i, 0))
				dirOK = vxOr(dirOK, vxOr(d == filepath.Dir(target), vxHasPrefix(d, filepath.Dir(target)+"/")))
			}
		}
		vxAssert(dirOK, "C13.two.tempdir-subdir-created")
		moved := false
		for i := execAt; i < vxEvCount(); i++ {
			if vxEvOp(i) == "rename" {
				moved = vxOr(moved, vxAnd(vxResolve(vxCwd, vxEvArg(i, 0)) == target, vxResolve(vxCwd, vxEvArg(i, 1)) == vxResolve(vxCwd, P)))
			}
		}
		vxAssert(moved, "C13.two.moved-to-declared-path")
	}
}

// VxH13fifo: names that collide with the library's own bookkeeping names: an ordinary
// output called like the FIFO of its sibling (<path>.fifo), like an audit file's temp name,
// or like a temp dir. Every declared output ends up at its declared path and stays there.
func VxH13fifo() {
	vxCmdFree(false, false)
	wf := newWorkflowWithoutLogging("w", 4)
	second := []string{"o/reads.fifo", "o/reads.audit.json.tmp", "o/reads.tmp", "o/_scipipe_tmp.x"}[vxChoice("name", 4)]
	p := NewProc(wf, "p", "vcmd w:{o:a} w:{o:b}")
	p.SetOut("a", "o/reads")
	p.SetOut("b", second)
	c := NewProc(wf, "c", "vcmd r:{i:in} r:{i:in2} w:{o:out}")
	c.SetOut("out", "c.txt")
	c.In("in").From(p.Out("a"))
	c.In("in2").From(p.Out("b"))
	kind := vxRun(func() { wf.Run() })
	vxReach("ran")
	vxAssert(kind == "returned", "C13.bookkeeping-names.run-completes")
	for _, o := range []string{"o/reads", second, "c.txt"} {
		vxAssert(vxFSKind(o) == vxFile && vxFSOrigin(o) == "cmd", "C13.bookkeeping-names.output-at-declared-path")
	}
}

// VxH13dotdot: output paths that go through a directory which does not exist yet and back
// up again ("stage/../result.txt"): the file the command wrote ends up at the declared
// path (the file-system model resolves ".." component by component, like the kernel).
func VxH13dotdot() {
	vxCmdFree(false, false)
	P := []string{"stage/../result.txt", "a/b/../../x.txt", "d/../d/y.txt", "../up/q/../z.txt"}[vxChoice("path", 4)]
	vxFSMkdirAll("/up")
	wf := newWorkflowWithoutLogging("w", 4)
	p := NewProc(wf, "p", "vcmd w:{o:out}")
	p.SetOut("out", P)
	c := NewProc(wf, "c", "vcmd r:{i:in} w:{o:out}")
	c.SetOut("out", "c.txt")
	c.In("in").From(p.Out("out"))
	kind := vxRun(func() { wf.Run() })
	vxReach("ran")
	if P == "../up/q/../z.txt" {
		// KF-C13-3 (listed): behind a leading ../ the not-yet-existing directory is only
		// created under its placeholder name in the working directory, so the audit file
		// cannot be written and the task fails (natively: "Could not write audit file")
		vxKnown(kind == "returned", "KF-C13-3")
		return
	}
	vxAssert(kind == "returned", "C13.dotdot.run-completes")
	vxAssert(vxFSKind(P) == vxFile && vxFSOrigin(P) == "cmd", "C13.dotdot.output-at-declared-path")
	vxAssert(vxFSKind("c.txt") == vxFile, "C13.dotdot.consumer-read-it")
}
