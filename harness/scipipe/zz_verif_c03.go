package scipipe

// C03: restart after a crash converges to the uninterrupted result. History harness over
// the real Workflow.Run of a -> b: run 1 killed at a symbolic point, optional clean-up of
// temp dirs, run 2 (optionally killed as well, cleaned, run 3). Each run uses freshly built
// workflow objects, as a new program start would.

func VxH03() {
	two := vxGet("two")
	outA, outA2 := "a.txt", ""
	if two == 1 {
		outA2 = "a2.txt"
	}
	outs := []string{outA, "b.txt"}
	if two == 1 {
		outs = append(outs, outA2)
	}
	vxCmdFree(false, false) // commands succeed; the faults here are the kills
	vxMapOrder("finalizePaths")
	N := vxGet("N")
	// run 1: killed at point k1
	k1 := vxInt("k1", 0, N)
	vxKillAt(k1)
	w1 := vxTwoStep(outA, outA2, "b.txt")
	kind1 := vxRun(func() { w1.wf.Run() })
	vxAssume(kind1 == "killed")
	vxKillAt(-1)
	runs := 1
	last := ""
	for {
		for _, o := range outs {
			vxAssert(vxOutputOK(o), "C03.finalized-outputs-correct")
		}
		// KF-C03-1 (listed): a task with two outputs killed between its renames is skipped
		// on restart although one output is missing
		if two == 1 && (vxFSKind(outA) == vxFile) != (vxFSKind(outA2) == vxFile) {
			vxSet("kf", 1)
		}
		clean := vxConcreteBool(vxBool("clean" + string(rune('0'+runs))))
		leftovers := !vxNoTempLeft()
		if clean {
			vxFSRemoveTemp()
		}
		inoBefore := map[string]int{}
		for _, o := range outs {
			inoBefore[o] = vxFSIno(o)
		}
		nInv := vxInvCount()
		// optionally this run is killed too (thorough tier)
		killed2 := false
		if runs < vxGet("crashes") && vxConcreteBool(vxBool("again"+string(rune('0'+runs)))) {
			vxKillAt(vxInt("k"+string(rune('1'+runs)), 0, N))
			killed2 = true
		}
		w := vxTwoStep(outA, outA2, "b.txt")
		kind := vxRun(func() { w.wf.Run() })
		vxKillAt(-1)
		runs++
		last = kind
		// finalized outputs are never re-executed or replaced
		for _, o := range outs {
			if inoBefore[o] != 0 {
				vxAssert(vxFSIno(o) == inoBefore[o], "C03.final-output-kept")
			}
		}
		if kind == "killed" {
			continue
		}
		if killed2 {
			// the kill point lay beyond the end of this run
			vxAssume(false)
		}
		if !clean && leftovers {
			// leftovers are not adopted: the run stops with a non-zero status
			vxAssert(vxAnd(kind == "exit", vxRunCode() != 0), "C03.leftovers-refused")
			for _, o := range outs {
				vxAssert(vxOutputOK(o), "C03.finalized-outputs-correct")
			}
			vxReach("refused")
			return
		}
		if vxGet("kf") == 1 {
			vxKnown(vxAnd(kind == "returned", vxFSKind(outA2) == vxFile), "KF-C03-1")
			vxReach("known")
			return
		}
		// cleaned (or nothing was left): the run completes with the uninterrupted result
		vxAssert(kind == "returned", "C03.restart-completes")
		for _, o := range outs {
			vxAssert(vxAnd(vxFSKind(o) == vxFile, vxOutputOK(o)), "C03.converges-to-uninterrupted-result")
		}
		vxAssert(vxNoTempLeft(), "C03.no-leftovers-after-completion")
		// at most one successful command per output in the whole history
		vxAssert(vxInvCount()-nInv <= 2, "C03.no-needless-reexecution")
		_ = last
		vxReach("converged")
		return
	}
}
