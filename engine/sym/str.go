package sym

import (
	"fmt"
	"strings"
)

// LW is the bit width of string lengths / offsets.
const LW = 16

// Str is a bounded symbolic string: the value is Ch[0:Len]; Ch[j] for j >= Len are
// don't-care. Invariant (by construction or by assumption): Len <= len(Ch).
type Str struct {
	Len *Term
	Ch  []*Term
}

func (c *Ctx) L(n int) *Term { return c.BV(LW, uint64(n)) }

func (c *Ctx) StrConst(s string) *Str {
	r := &Str{Len: c.L(len(s)), Ch: make([]*Term, len(s))}
	for i := 0; i < len(s); i++ {
		r.Ch[i] = c.BV(8, uint64(s[i]))
	}
	return r
}

// StrVar declares a symbolic string of at most max bytes. The returned constraint
// (Len <= max) must be assumed by the caller.
func (c *Ctx) StrVar(name string, max int) (*Str, *Term) {
	r := &Str{Len: c.Var(name+".len", LW), Ch: make([]*Term, max)}
	for i := 0; i < max; i++ {
		r.Ch[i] = c.Var(fmt.Sprintf("%s.%d", name, i), 8)
	}
	return r, c.Ule(r.Len, c.L(max))
}

func (s *Str) Max() int { return len(s.Ch) }

// Concrete returns the Go string if length and all live chars are constants.
func (s *Str) Concrete() (string, bool) {
	if !s.Len.IsConst() {
		return "", false
	}
	n := int(s.Len.Val)
	if n > len(s.Ch) {
		return "", false
	}
	b := make([]byte, n)
	for i := 0; i < n; i++ {
		if !s.Ch[i].IsConst() {
			return "", false
		}
		b[i] = byte(s.Ch[i].Val)
	}
	return string(b), true
}

// Trim drops don't-care capacity when the length is constant.
func (s *Str) Trim() *Str {
	if s.Len.IsConst() && int(s.Len.Val) < len(s.Ch) {
		return &Str{Len: s.Len, Ch: s.Ch[:s.Len.Val]}
	}
	return s
}

// EvalStr computes the concrete value of s under a model.
func EvalStr(s *Str, env map[string]uint64, memo map[*Term]uint64) string {
	n := int(Eval(s.Len, env, memo))
	if n > len(s.Ch) {
		n = len(s.Ch)
	}
	b := make([]byte, n)
	for i := 0; i < n; i++ {
		b[i] = byte(Eval(s.Ch[i], env, memo))
	}
	return string(b)
}

func (c *Ctx) StrEq(a, b *Str) *Term {
	n := len(a.Ch)
	if len(b.Ch) < n {
		n = len(b.Ch)
	}
	r := c.Eq(a.Len, b.Len)
	if r.IsFalse() {
		return r
	}
	// lengths beyond the common capacity are impossible for the smaller one
	r = c.And(r, c.Ule(a.Len, c.L(n)))
	for j := 0; j < n; j++ {
		if r.IsFalse() {
			return r
		}
		r = c.And(r, c.Or(c.Ule(a.Len, c.L(j)), c.Eq(a.Ch[j], b.Ch[j])))
	}
	return r
}

// StrLess: lexicographic a < b (bytewise), as Go compares strings.
func (c *Ctx) StrLess(a, b *Str) *Term {
	n := len(a.Ch)
	if len(b.Ch) > n {
		n = len(b.Ch)
	}
	// scan from the end: less_j = result considering positions >= j
	res := c.F // all positions equal beyond both: a<b iff ... handled by length at each j
	for j := n; j >= 0; j-- {
		aEnd := c.Ule(a.Len, c.L(j))
		bEnd := c.Ule(b.Len, c.L(j))
		var ac, bc *Term
		if j < len(a.Ch) {
			ac = a.Ch[j]
		} else {
			ac = c.BV(8, 0)
			aEnd = c.T
		}
		if j < len(b.Ch) {
			bc = b.Ch[j]
		} else {
			bc = c.BV(8, 0)
			bEnd = c.T
		}
		// at position j: if a ended: less iff b not ended; else if b ended: false;
		// else if ac<bc true; if ac>bc false; else continue
		cont := res
		if j == n {
			cont = c.F
		}
		res = c.Ite(aEnd, c.Not(bEnd), c.Ite(bEnd, c.F, c.Ite(c.Ult(ac, bc), c.T, c.Ite(c.Ult(bc, ac), c.F, cont))))
	}
	return res
}

// At returns s[idx] for a symbolic index (0 when out of capacity).
func (c *Ctx) At(s *Str, idx *Term) *Term {
	if idx.IsConst() {
		if int(idx.Val) < len(s.Ch) {
			return s.Ch[idx.Val]
		}
		return c.BV(8, 0)
	}
	r := c.BV(8, 0)
	for j := len(s.Ch) - 1; j >= 0; j-- {
		r = c.Ite(c.Eq(idx, c.L(j)), s.Ch[j], r)
	}
	return r
}

// builder: output buffer with a symbolic write position.
type builder struct {
	c  *Ctx
	w  *Term
	ch []*Term
}

func (c *Ctx) newBuilder(capacity int) *builder {
	b := &builder{c: c, w: c.L(0), ch: make([]*Term, capacity)}
	z := c.BV(8, 0)
	for i := range b.ch {
		b.ch[i] = z
	}
	return b
}

func (b *builder) appendCharIf(cond, ch *Term) {
	c := b.c
	if cond.IsFalse() {
		return
	}
	if b.w.IsConst() {
		j := int(b.w.Val)
		if j < len(b.ch) {
			b.ch[j] = c.Ite(cond, ch, b.ch[j])
		}
	} else {
		for j := range b.ch {
			b.ch[j] = c.Ite(c.And(cond, c.Eq(b.w, c.L(j))), ch, b.ch[j])
		}
	}
	b.w = c.Ite(cond, c.Add(b.w, c.L(1)), b.w)
}

func (b *builder) appendStrIf(cond *Term, s *Str) {
	c := b.c
	if cond.IsFalse() {
		return
	}
	if b.w.IsConst() {
		w := int(b.w.Val)
		for k := 0; k < len(s.Ch); k++ {
			j := w + k
			if j >= len(b.ch) {
				break
			}
			b.ch[j] = c.Ite(c.And(cond, c.Ult(c.L(k), s.Len)), s.Ch[k], b.ch[j])
		}
	} else {
		for j := range b.ch {
			r := b.ch[j]
			for k := len(s.Ch) - 1; k >= 0; k-- {
				if j-k < 0 {
					continue
				}
				hit := c.And(cond, c.Eq(b.w, c.L(j-k)), c.Ult(c.L(k), s.Len))
				r = c.Ite(hit, s.Ch[k], r)
			}
			b.ch[j] = r
		}
	}
	b.w = c.Ite(cond, c.Add(b.w, s.Len), b.w)
}

func (b *builder) str() *Str {
	return (&Str{Len: b.w, Ch: b.ch}).Trim()
}

func (c *Ctx) Concat(a, b *Str) *Str {
	if b.Len.IsConst() && b.Len.Val == 0 {
		return a
	}
	if a.Len.IsConst() && a.Len.Val == 0 {
		return b
	}
	a = a.Trim()
	bl := c.newBuilder(len(a.Ch) + len(b.Ch))
	copy(bl.ch, a.Ch)
	bl.w = a.Len
	bl.appendStrIf(c.T, b)
	return bl.str()
}

// Slice returns s[lo:hi]; the caller is responsible for the bounds check
// (0 <= lo <= hi <= Len), see SliceOK.
func (c *Ctx) Slice(s *Str, lo, hi *Term) *Str {
	n := c.Sub(hi, lo)
	if lo.IsConst() {
		l := int(lo.Val)
		if l > len(s.Ch) {
			l = len(s.Ch)
		}
		return (&Str{Len: n, Ch: s.Ch[l:]}).Trim()
	}
	ch := make([]*Term, len(s.Ch))
	for j := range ch {
		r := c.BV(8, 0)
		for k := len(s.Ch) - 1 - j; k >= 0; k-- {
			r = c.Ite(c.Eq(lo, c.L(k)), s.Ch[k+j], r)
		}
		ch[j] = r
	}
	return (&Str{Len: n, Ch: ch}).Trim()
}

func (c *Ctx) SliceOK(s *Str, lo, hi *Term) *Term {
	return c.And(c.Ule(lo, hi), c.Ule(hi, s.Len))
}

// matchAt: the constant pat occurs in s at constant position i.
func (c *Ctx) matchAt(s *Str, i int, pat string) *Term {
	if i+len(pat) > len(s.Ch) {
		return c.F
	}
	r := c.Ule(c.L(i+len(pat)), s.Len)
	for k := 0; k < len(pat); k++ {
		if r.IsFalse() {
			return r
		}
		r = c.And(r, c.Eq(s.Ch[i+k], c.BV(8, uint64(pat[k]))))
	}
	return r
}

func (c *Ctx) HasPrefix(s *Str, p string) *Term { return c.matchAt(s, 0, p) }

// HasPrefixSym: p is a prefix of s, both symbolic.
func (c *Ctx) HasPrefixSym(s, p *Str) *Term {
	r := c.Ule(p.Len, s.Len)
	for j := 0; j < len(p.Ch); j++ {
		var sc *Term
		if j < len(s.Ch) {
			sc = s.Ch[j]
		} else {
			// p longer than s's capacity at this position: only fine if j >= p.Len
			r = c.And(r, c.Ule(p.Len, c.L(j)))
			continue
		}
		r = c.And(r, c.Or(c.Ule(p.Len, c.L(j)), c.Eq(sc, p.Ch[j])))
	}
	return r
}

func (c *Ctx) HasSuffix(s *Str, p string) *Term {
	r := c.F
	for i := 0; i+len(p) <= len(s.Ch); i++ {
		r = c.Or(r, c.And(c.Eq(s.Len, c.L(i+len(p))), c.matchAt(s, i, p)))
	}
	return r
}

func (c *Ctx) Contains(s *Str, p string) *Term {
	if p == "" {
		return c.T
	}
	r := c.F
	for i := 0; i+len(p) <= len(s.Ch); i++ {
		r = c.Or(r, c.matchAt(s, i, p))
	}
	return r
}

// IndexOf returns the first index of constant p in s as a signed LW-bit term (-1 if absent).
func (c *Ctx) IndexOf(s *Str, p string) *Term {
	r := c.BV(LW, mask(LW))
	for i := len(s.Ch) - len(p); i >= 0; i-- {
		r = c.Ite(c.matchAt(s, i, p), c.L(i), r)
	}
	return r
}

// LastIndexOf returns the last index of constant p in s (signed, -1 if absent).
func (c *Ctx) LastIndexOf(s *Str, p string) *Term {
	r := c.BV(LW, mask(LW))
	for i := 0; i+len(p) <= len(s.Ch); i++ {
		r = c.Ite(c.matchAt(s, i, p), c.L(i), r)
	}
	return r
}

// Replace implements strings.Replace(s, old, new, n) for a constant, non-empty old.
func (c *Ctx) Replace(s *Str, old string, nw *Str, n int) *Str {
	if old == "" {
		panic("sym.Replace: empty pattern unsupported")
	}
	if n == 0 {
		return s
	}
	s = s.Trim()
	nw = nw.Trim()
	maxMatches := len(s.Ch) / len(old)
	if n > 0 && n < maxMatches {
		maxMatches = n
	}
	capacity := len(s.Ch)
	if len(nw.Ch) > len(old) {
		capacity += maxMatches * (len(nw.Ch) - len(old))
	}
	b := c.newBuilder(capacity)
	skip := c.L(0)
	cw := 8
	count := c.BV(cw, 0)
	for i := 0; i < len(s.Ch); i++ {
		active := c.And(c.Ule(skip, c.L(i)), c.Ult(c.L(i), s.Len))
		if active.IsFalse() {
			continue
		}
		m := c.And(active, c.matchAt(s, i, old))
		if n > 0 {
			m = c.And(m, c.Ult(count, c.BV(cw, uint64(n))))
		}
		b.appendStrIf(m, nw)
		b.appendCharIf(c.And(active, c.Not(m)), s.Ch[i])
		skip = c.Ite(m, c.L(i+len(old)), skip)
		if n > 0 {
			count = c.Ite(m, c.Add(count, c.BV(cw, 1)), count)
		}
	}
	return b.str()
}

func (c *Ctx) ToLower(s *Str) *Str {
	r := &Str{Len: s.Len, Ch: make([]*Term, len(s.Ch))}
	for i, ch := range s.Ch {
		isUp := c.And(c.Ule(c.BV(8, 'A'), ch), c.Ule(ch, c.BV(8, 'Z')))
		r.Ch[i] = c.Ite(isUp, c.Add(ch, c.BV(8, 32)), ch)
	}
	return r
}

func (c *Ctx) Join(parts []*Str, sep *Str) *Str {
	if len(parts) == 0 {
		return c.StrConst("")
	}
	r := parts[0]
	for _, p := range parts[1:] {
		r = c.Concat(c.Concat(r, sep), p)
	}
	return r
}

// ---------------------------------------------------------------- paths

// CleanRelOrAbs: s is a "clean-normal" path: non-empty, no "//", no trailing "/"
// (except the root itself), no "." segment (except s == "."), ".." only as leading
// segments of a relative path.
func (c *Ctx) CleanPath(s *Str) *Term {
	n := len(s.Ch)
	sl := c.BV(8, '/')
	dot := c.BV(8, '.')
	live := func(j int) *Term { return c.Ult(c.L(j), s.Len) }
	isSlash := func(j int) *Term {
		if j >= n {
			return c.F
		}
		return c.And(live(j), c.Eq(s.Ch[j], sl))
	}
	isDot := func(j int) *Term {
		if j >= n {
			return c.F
		}
		return c.And(live(j), c.Eq(s.Ch[j], dot))
	}
	// segment boundary after position j (j is last char of a segment): j+1 is '/' or end
	endAt := func(j int) *Term { return c.Or(c.Eq(s.Len, c.L(j+1)), isSlash(j+1)) }
	startAt := func(j int) *Term {
		if j == 0 {
			return c.T
		}
		return isSlash(j - 1)
	}
	r := c.Not(c.Eq(s.Len, c.L(0)))
	isRoot := c.And(c.Eq(s.Len, c.L(1)), c.Eq(s.Ch0(c), sl))
	isDotOnly := c.And(c.Eq(s.Len, c.L(1)), c.Eq(s.Ch0(c), dot))
	// dotdotAt[j]: segment ".." starting at j
	ddAt := func(j int) *Term { return c.And(startAt(j), isDot(j), isDot(j+1), endAt(j+1)) }
	// leadDD[j]: position j starts a segment and all previous segments are ".." (relative)
	lead := make([]*Term, n+1)
	for j := 0; j <= n; j++ {
		if j == 0 {
			lead[j] = c.T
		} else if j >= 3 {
			lead[j] = c.And(lead[j-3], ddAt(j-3), isSlash(j-1))
		} else {
			lead[j] = c.F
		}
	}
	for j := 0; j < n; j++ {
		// no "//"
		r = c.And(r, c.Not(c.And(isSlash(j), isSlash(j+1))))
		// no trailing slash unless root
		r = c.And(r, c.Or(isRoot, c.Not(c.And(isSlash(j), c.Eq(s.Len, c.L(j+1))))))
		// no "." segment unless s == "."
		r = c.And(r, c.Or(isDotOnly, c.Not(c.And(startAt(j), isDot(j), endAt(j)))))
		// ".." segment only in leading position
		r = c.And(r, c.Or(c.Not(ddAt(j)), lead[j]))
	}
	return r
}

func (s *Str) Ch0(c *Ctx) *Term {
	if len(s.Ch) == 0 {
		return c.BV(8, 0)
	}
	return s.Ch[0]
}

// PathDir implements filepath.Dir for clean-normal paths (see CleanPath).
func (c *Ctx) PathDir(s *Str) *Str {
	li := c.LastIndexOf(s, "/") // signed
	none := c.Eq(li, c.BV(LW, mask(LW)))
	atRoot := c.Eq(li, c.L(0))
	// result: none -> "."; atRoot -> "/"; else s[:li]
	ch := make([]*Term, len(s.Ch))
	copy(ch, s.Ch)
	if len(ch) == 0 {
		ch = []*Term{c.BV(8, '.')}
	} else {
		ch[0] = c.Ite(none, c.BV(8, '.'), s.Ch[0]) // atRoot: s.Ch[0] is '/'
	}
	ln := c.Ite(c.Or(none, atRoot), c.L(1), li)
	return (&Str{Len: ln, Ch: ch}).Trim()
}

// PathBase implements filepath.Base for clean-normal paths.
func (c *Ctx) PathBase(s *Str) *Str {
	li := c.LastIndexOf(s, "/")
	none := c.Eq(li, c.BV(LW, mask(LW)))
	isRoot := c.And(c.Eq(s.Len, c.L(1)), c.Not(none))
	start := c.Ite(c.Or(none, isRoot), c.L(0), c.Add(li, c.L(1)))
	return c.Slice(s, start, s.Len)
}

// ---------------------------------------------------------------- misc

// HexOfBytes renders bytes as lower-case hex (encoding/hex.EncodeToString).
func (c *Ctx) HexOfBytes(bs []*Term) *Str {
	r := &Str{Len: c.L(2 * len(bs)), Ch: make([]*Term, 2*len(bs))}
	nib := func(n *Term) *Term {
		n8 := c.Zext(n, 8)
		return c.Ite(c.Ult(n8, c.BV(8, 10)), c.Add(n8, c.BV(8, '0')), c.Add(n8, c.BV(8, 'a'-10)))
	}
	for i, b := range bs {
		r.Ch[2*i] = nib(c.Extract(b, 7, 4))
		r.Ch[2*i+1] = nib(c.Extract(b, 3, 0))
	}
	return r
}

// InClass: every live char of s satisfies pred.
func (c *Ctx) AllChars(s *Str, pred func(ch *Term) *Term) *Term {
	r := c.T
	for j, ch := range s.Ch {
		r = c.And(r, c.Or(c.Ule(s.Len, c.L(j)), pred(ch)))
	}
	return r
}

func (c *Ctx) CharIn(ch *Term, set string) *Term {
	// set syntax: ranges like "a-z" are NOT interpreted; literal bytes only
	r := c.F
	for i := 0; i < len(set); i++ {
		r = c.Or(r, c.Eq(ch, c.BV(8, uint64(set[i]))))
	}
	return r
}

func (c *Ctx) CharRange(ch *Term, lo, hi byte) *Term {
	return c.And(c.Ule(c.BV(8, uint64(lo)), ch), c.Ule(ch, c.BV(8, uint64(hi))))
}

func (s *Str) Debug() string {
	if g, ok := s.Concrete(); ok {
		return fmt.Sprintf("%q", g)
	}
	var sb strings.Builder
	fmt.Fprintf(&sb, "sym[len=%s;", s.Len.String())
	for i, ch := range s.Ch {
		if i > 0 {
			sb.WriteString(",")
		}
		if ch.IsConst() {
			fmt.Fprintf(&sb, "%q", rune(ch.Val))
		} else {
			sb.WriteString("?")
		}
	}
	sb.WriteString("]")
	return sb.String()
}

// matchAtSym: the symbolic string p occurs in s at constant offset i.
func (c *Ctx) matchAtSym(s *Str, i int, p *Str) *Term {
	// i + len(p) <= len(s)
	ok := c.Ule(c.Add(c.L(i), p.Len), s.Len)
	for j := 0; j < len(p.Ch); j++ {
		live := c.Ult(c.L(j), p.Len)
		var same *Term
		if i+j < len(s.Ch) {
			same = c.Eq(s.Ch[i+j], p.Ch[j])
		} else {
			same = c.F
		}
		ok = c.And(ok, c.Or(c.Not(live), same))
	}
	return ok
}

// IndexOfSym returns the first index of the symbolic string p in s (signed, -1 if absent).
func (c *Ctx) IndexOfSym(s, p *Str) *Term {
	r := c.BV(LW, mask(LW))
	for i := len(s.Ch); i >= 0; i-- {
		r = c.Ite(c.matchAtSym(s, i, p), c.L(i), r)
	}
	return r
}

// LastIndexOfSym returns the last index of the symbolic string p in s (signed, -1 if absent).
func (c *Ctx) LastIndexOfSym(s, p *Str) *Term {
	r := c.BV(LW, mask(LW))
	for i := 0; i <= len(s.Ch); i++ {
		r = c.Ite(c.matchAtSym(s, i, p), c.L(i), r)
	}
	return r
}

// IndexOfCh returns the first index of the symbolic byte b in s (signed, -1 if absent).
func (c *Ctx) IndexOfCh(s *Str, b *Term) *Term {
	r := c.BV(LW, mask(LW))
	for i := len(s.Ch) - 1; i >= 0; i-- {
		r = c.Ite(c.And(c.Ult(c.L(i), s.Len), c.Eq(s.Ch[i], b)), c.L(i), r)
	}
	return r
}

// LastIndexOfCh returns the last index of the symbolic byte b in s (signed, -1 if absent).
func (c *Ctx) LastIndexOfCh(s *Str, b *Term) *Term {
	r := c.BV(LW, mask(LW))
	for i := 0; i < len(s.Ch); i++ {
		r = c.Ite(c.And(c.Ult(c.L(i), s.Len), c.Eq(s.Ch[i], b)), c.L(i), r)
	}
	return r
}

// IndexAnyOf / LastIndexAnyOf: first / last position holding a byte of the constant set.
func (c *Ctx) IndexAnyOf(s *Str, set string) *Term {
	r := c.BV(LW, mask(LW))
	for i := len(s.Ch) - 1; i >= 0; i-- {
		r = c.Ite(c.And(c.Ult(c.L(i), s.Len), c.CharIn(s.Ch[i], set)), c.L(i), r)
	}
	return r
}

func (c *Ctx) LastIndexAnyOf(s *Str, set string) *Term {
	r := c.BV(LW, mask(LW))
	for i := 0; i < len(s.Ch); i++ {
		r = c.Ite(c.And(c.Ult(c.L(i), s.Len), c.CharIn(s.Ch[i], set)), c.L(i), r)
	}
	return r
}
