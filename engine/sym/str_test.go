package sym

import (
	"math/rand"
	"path/filepath"
	"regexp"
	"strings"
	"testing"
)

func envFor(env map[string]uint64, name string, s string, max int) {
	env[name+".len"] = uint64(len(s))
	for i := 0; i < max; i++ {
		if i < len(s) {
			env[name+"."+itoa(i)] = uint64(s[i])
		} else {
			env[name+"."+itoa(i)] = uint64(rand.Intn(256)) // garbage beyond len
		}
	}
}
func itoa(i int) string {
	if i == 0 {
		return "0"
	}
	s := ""
	for i > 0 {
		s = string(rune('0'+i%10)) + s
		i /= 10
	}
	return s
}

var alpha = []byte("a./_b-A%")

func randStr(r *rand.Rand, max int) string {
	n := r.Intn(max + 1)
	b := make([]byte, n)
	for i := range b {
		b[i] = alpha[r.Intn(len(alpha))]
	}
	return string(b)
}

func allStrs(max int, f func(string)) {
	var rec func(p string)
	rec = func(p string) {
		f(p)
		if len(p) == max {
			return
		}
		for _, ch := range []byte("a./_%") {
			rec(p + string(ch))
		}
	}
	rec("")
}

func isClean(p string) bool {
	if p == "" {
		return false
	}
	return filepath.Clean(p) == p
}

func TestStringOps(t *testing.T) {
	c := NewCtx()
	const M = 6
	a, _ := c.StrVar("a", M)
	b, _ := c.StrVar("b", M)
	ops := map[string]func(x, y string) (string, *Str){
		"concat":  func(x, y string) (string, *Str) { return x + y, c.Concat(a, b) },
		"replDD":  func(x, y string) (string, *Str) { return strings.ReplaceAll(x, "../", "__parent__"), c.Replace(a, "../", c.StrConst("__parent__"), -1) },
		"repl1":   func(x, y string) (string, *Str) { return strings.Replace(x, "a", y, 1), c.Replace(a, "a", b, 1) },
		"replAll": func(x, y string) (string, *Str) { return strings.Replace(x, "a/", y, -1), c.Replace(a, "a/", b, -1) },
		"repl2":   func(x, y string) (string, *Str) { return strings.Replace(x, "_", "", 2), c.Replace(a, "_", c.StrConst(""), 2) },
		"lower":   func(x, y string) (string, *Str) { return strings.ToLower(x), c.ToLower(a) },
		"join":    func(x, y string) (string, *Str) { return strings.Join([]string{x, y, x}, ","), c.Join([]*Str{a, b, a}, c.StrConst(",")) },
		"cc3":     func(x, y string) (string, *Str) { return "../" + x + ".fifo", c.Concat(c.Concat(c.StrConst("../"), a), c.StrConst(".fifo")) },
	}
	type rxop struct{ pat, repl string }
	rxs := []rxop{{`.*\/`, ""}, {`\/[^\/]*$`, ""}, {"[^a-z0-9_\\-\\.]+", "_"}, {`^[0-9A-Za-z\/\.\-_]+$`, "X"}, {`a+\.`, "<>"}, {`_?a`, "Q"}}
	check := func(x, y string) {
		env := map[string]uint64{}
		envFor(env, "a", x, M)
		envFor(env, "b", y, M)
		for name, op := range ops {
			want, term := op(x, y)
			got := EvalStr(term, env, map[*Term]uint64{})
			if got != want {
				t.Fatalf("%s(%q,%q): got %q want %q", name, x, y, got, want)
			}
		}
		memo := map[*Term]uint64{}
		if got, want := Eval(c.StrEq(a, b), env, memo) == 1, x == y; got != want {
			t.Fatalf("eq(%q,%q) got %v", x, y, got)
		}
		if got, want := Eval(c.StrLess(a, b), env, memo) == 1, x < y; got != want {
			t.Fatalf("less(%q,%q) got %v", x, y, got)
		}
		if got, want := Eval(c.Contains(a, "a/"), env, memo) == 1, strings.Contains(x, "a/"); got != want {
			t.Fatalf("contains(%q) got %v", x, got)
		}
		if got, want := Eval(c.HasSuffix(a, "/a"), env, memo) == 1, strings.HasSuffix(x, "/a"); got != want {
			t.Fatalf("hassuffix(%q) got %v", x, got)
		}
		if got, want := int16(Eval(c.IndexOf(a, "/"), env, memo)), int16(strings.Index(x, "/")); got != want {
			t.Fatalf("index(%q) got %v", x, got)
		}
		if got, want := int16(Eval(c.LastIndexOf(a, "/"), env, memo)), int16(strings.LastIndex(x, "/")); got != want {
			t.Fatalf("lastindex(%q) got %v", x, got)
		}
		if got, want := Eval(c.CleanPath(a), env, memo) == 1, isClean(x); got != want {
			t.Fatalf("clean(%q) got %v want %v", x, got, want)
		}
		if isClean(x) {
			if got, want := EvalStr(c.PathDir(a), env, memo), filepath.Dir(x); got != want {
				t.Fatalf("dir(%q) got %q want %q", x, got, want)
			}
			if got, want := EvalStr(c.PathBase(a), env, memo), filepath.Base(x); got != want {
				t.Fatalf("base(%q) got %q want %q", x, got, want)
			}
		}
		for _, ro := range rxs {
			rx, err := CompileRegex(ro.pat)
			if err != nil {
				t.Fatal(err)
			}
			gre := regexp.MustCompile(ro.pat)
			if got, want := Eval(rx.Match(c, a), env, memo) == 1, gre.MatchString(x); got != want {
				t.Fatalf("match %q (%q) got %v want %v", ro.pat, x, got, want)
			}
			rs, err := rx.ReplaceAll(c, a, c.StrConst(ro.repl))
			if err != nil {
				t.Fatal(err)
			}
			if got, want := EvalStr(rs, env, memo), gre.ReplaceAllString(x, ro.repl); got != want {
				t.Fatalf("replaceall %q (%q) got %q want %q", ro.pat, x, got, want)
			}
		}
		// slices
		for lo := 0; lo <= len(x); lo++ {
			for hi := lo; hi <= len(x); hi++ {
				env["lo"] = uint64(lo)
				env["hi"] = uint64(hi)
				sl := c.Slice(a, c.Var("lo", LW), c.Var("hi", LW))
				if got := EvalStr(sl, env, map[*Term]uint64{}); got != x[lo:hi] {
					t.Fatalf("slice %q[%d:%d] got %q", x, lo, hi, got)
				}
			}
		}
	}
	n := 0
	allStrs(4, func(x string) {
		n++
		check(x, "a/")
		check(x, x)
		if n%7 == 0 {
			check("a/"+x, x+"_")
		}
	})
	r := rand.New(rand.NewSource(1))
	for i := 0; i < 3000; i++ {
		check(randStr(r, M), randStr(r, M))
	}
}
