// Package sym: hash-consed QF_BV term DAG with light simplification.
package sym

import (
	"fmt"
	"strings"
)

type Op uint8

const (
	OpConst Op = iota // BV or Bool constant (Width 0 = Bool)
	OpVar
	OpNot
	OpAnd
	OpOr
	OpIte
	OpEq
	OpUlt
	OpUle
	OpSlt
	OpSle
	OpAdd
	OpSub
	OpMul
	OpBvAnd
	OpBvOr
	OpBvXor
	OpShl
	OpLshr
	OpExtract
	OpZext
	OpSext
	OpConcat
	OpUdiv
	OpUrem
)

// Term is an immutable node. Width 0 means Bool.
type Term struct {
	ID    int
	Op    Op
	Width int
	Args  []*Term
	Val   uint64 // OpConst value (Bool: 0/1)
	Name  string // OpVar
	Lo    int    // OpExtract low bit; OpZext/OpSext extra bits
	cl    uint8  // memo for constLeafIte: 0 unknown, 1 yes, 2 no
}

func (t *Term) IsConst() bool { return t.Op == OpConst }
func (t *Term) IsBool() bool  { return t.Width == 0 }
func (t *Term) IsTrue() bool  { return t.Op == OpConst && t.Width == 0 && t.Val == 1 }
func (t *Term) IsFalse() bool { return t.Op == OpConst && t.Width == 0 && t.Val == 0 }

// SInt returns the constant interpreted as signed.
func (t *Term) SInt() int64 {
	if t.Width == 0 || t.Width >= 64 {
		return int64(t.Val)
	}
	v := t.Val
	if v&(1<<uint(t.Width-1)) != 0 {
		v |= ^uint64(0) << uint(t.Width)
	}
	return int64(v)
}

type key struct {
	op         Op
	width      int
	val        uint64
	name       string
	lo         int
	a0, a1, a2 int
}

// Ctx owns a term table. Not safe for concurrent use.
type Ctx struct {
	tab   map[key]*Term
	nary  map[string]*Term
	next  int
	T, F  *Term
	Vars  []*Term // declared variables, in order
	vname map[string]*Term
	memo  map[memoKey]*Term
	dom   map[int]*[4]uint64 // per 8-bit variable: set of values it may take (facts asserted on this path)
}

// SetDomain records that the 8-bit variable v only takes values satisfying pred. The
// caller must have asserted the same fact to the solver.
func (c *Ctx) SetDomain(v *Term, pred func(b byte) bool) {
	if v.Op != OpVar || v.Width != 8 {
		return
	}
	d := &[4]uint64{}
	if old, ok := c.dom[v.ID]; ok {
		*d = *old
	} else {
		for i := range d {
			d[i] = ^uint64(0)
		}
	}
	for b := 0; b < 256; b++ {
		if !pred(byte(b)) {
			d[b/64] &^= 1 << uint(b%64)
		}
	}
	c.dom[v.ID] = d
}

func (c *Ctx) domHas(v *Term, val uint64) bool {
	d, ok := c.dom[v.ID]
	if !ok || val > 255 {
		return true
	}
	return d[val/64]&(1<<uint(val%64)) != 0
}

// domRange returns the smallest and largest value v may take.
func (c *Ctx) domRange(v *Term) (lo, hi uint64, ok bool) {
	d, has := c.dom[v.ID]
	if !has {
		return 0, 0, false
	}
	lo, hi = 256, 0
	for b := uint64(0); b < 256; b++ {
		if d[b/64]&(1<<uint(b%64)) != 0 {
			if b < lo {
				lo = b
			}
			hi = b
		}
	}
	if lo == 256 {
		return 0, 0, false
	}
	return lo, hi, true
}

// LearnFact refines variable domains from an asserted formula of the form (= v k) or
// (not (= v k)).
func (c *Ctx) LearnFact(t *Term) {
	neg := false
	if t.Op == OpNot {
		neg = true
		t = t.Args[0]
	}
	if t.Op != OpEq {
		return
	}
	a, b := t.Args[0], t.Args[1]
	if a.IsConst() {
		a, b = b, a
	}
	if a.Op != OpVar || a.Width != 8 || !b.IsConst() {
		return
	}
	k := byte(b.Val)
	if neg {
		c.SetDomain(a, func(x byte) bool { return x != k })
	} else {
		c.SetDomain(a, func(x byte) bool { return x == k })
	}
}

type memoKey struct {
	op     Op
	a, b   int
	x, y   int
}

func NewCtx() *Ctx {
	c := &Ctx{tab: map[key]*Term{}, nary: map[string]*Term{}, vname: map[string]*Term{}, memo: map[memoKey]*Term{}, dom: map[int]*[4]uint64{}}
	c.T = c.mk(key{op: OpConst, width: 0, val: 1}, nil)
	c.F = c.mk(key{op: OpConst, width: 0, val: 0}, nil)
	return c
}

func (c *Ctx) NumTerms() int { return c.next }

func (c *Ctx) mk(k key, args []*Term) *Term {
	if len(args) > 0 {
		k.a0 = args[0].ID + 1
	}
	if len(args) > 1 {
		k.a1 = args[1].ID + 1
	}
	if len(args) > 2 {
		k.a2 = args[2].ID + 1
	}
	if len(args) > 3 {
		panic("mk: too many args")
	}
	if t, ok := c.tab[k]; ok {
		return t
	}
	t := &Term{ID: c.next, Op: k.op, Width: k.width, Args: args, Val: k.val, Name: k.name, Lo: k.lo}
	c.next++
	c.tab[k] = t
	return t
}

func mask(w int) uint64 {
	if w >= 64 {
		return ^uint64(0)
	}
	return (uint64(1) << uint(w)) - 1
}

func (c *Ctx) Bool(b bool) *Term {
	if b {
		return c.T
	}
	return c.F
}

func (c *Ctx) BV(w int, v uint64) *Term {
	if w <= 0 {
		panic("BV width")
	}
	return c.mk(key{op: OpConst, width: w, val: v & mask(w)}, nil)
}

// Var declares (or returns) a variable. Width 0 = Bool.
func (c *Ctx) Var(name string, w int) *Term {
	if t, ok := c.vname[name]; ok {
		if t.Width != w {
			panic("Var redeclared with other width: " + name)
		}
		return t
	}
	t := c.mk(key{op: OpVar, width: w, name: name}, nil)
	c.vname[name] = t
	c.Vars = append(c.Vars, t)
	return t
}

func (c *Ctx) LookupVar(name string) *Term { return c.vname[name] }

func (c *Ctx) Not(a *Term) *Term {
	if a.IsConst() {
		return c.Bool(a.Val == 0)
	}
	if a.Op == OpNot {
		return a.Args[0]
	}
	return c.mk(key{op: OpNot}, []*Term{a})
}

func (c *Ctx) And(as ...*Term) *Term {
	r := c.T
	for _, a := range as {
		r = c.and2(r, a)
	}
	return r
}

func (c *Ctx) and2(a, b *Term) *Term {
	if a.IsFalse() || b.IsFalse() {
		return c.F
	}
	if a.IsTrue() {
		return b
	}
	if b.IsTrue() {
		return a
	}
	if a == b {
		return a
	}
	if (a.Op == OpNot && a.Args[0] == b) || (b.Op == OpNot && b.Args[0] == a) {
		return c.F
	}
	if a.ID > b.ID {
		a, b = b, a
	}
	return c.mk(key{op: OpAnd}, []*Term{a, b})
}

func (c *Ctx) Or(as ...*Term) *Term {
	r := c.F
	for _, a := range as {
		r = c.or2(r, a)
	}
	return r
}

func (c *Ctx) or2(a, b *Term) *Term {
	if a.IsTrue() || b.IsTrue() {
		return c.T
	}
	if a.IsFalse() {
		return b
	}
	if b.IsFalse() {
		return a
	}
	if a == b {
		return a
	}
	if (a.Op == OpNot && a.Args[0] == b) || (b.Op == OpNot && b.Args[0] == a) {
		return c.T
	}
	if a.ID > b.ID {
		a, b = b, a
	}
	return c.mk(key{op: OpOr}, []*Term{a, b})
}

func (c *Ctx) Implies(a, b *Term) *Term { return c.Or(c.Not(a), b) }
func (c *Ctx) Iff(a, b *Term) *Term     { return c.Eq(a, b) }

func (c *Ctx) Ite(cond, a, b *Term) *Term {
	if a.Width != b.Width {
		panic(fmt.Sprintf("Ite width mismatch %d %d", a.Width, b.Width))
	}
	if cond.IsTrue() {
		return a
	}
	if cond.IsFalse() {
		return b
	}
	if a == b {
		return a
	}
	if cond.Op == OpNot {
		return c.Ite(cond.Args[0], b, a)
	}
	if a.Width == 0 {
		if a.IsTrue() && b.IsFalse() {
			return cond
		}
		if a.IsFalse() && b.IsTrue() {
			return c.Not(cond)
		}
		if a.IsTrue() {
			return c.Or(cond, b)
		}
		if a.IsFalse() {
			return c.And(c.Not(cond), b)
		}
		if b.IsTrue() {
			return c.Or(c.Not(cond), a)
		}
		if b.IsFalse() {
			return c.And(cond, a)
		}
	}
	// ite(c, x, ite(c, y, z)) = ite(c, x, z)
	if b.Op == OpIte && b.Args[0] == cond {
		return c.Ite(cond, a, b.Args[2])
	}
	if a.Op == OpIte && a.Args[0] == cond {
		return c.Ite(cond, a.Args[1], b)
	}
	return c.mk(key{op: OpIte, width: a.Width}, []*Term{cond, a, b})
}

// constLeafIte reports whether t is an ite-tree with constant leaves (bounded depth).
func constLeafIte(t *Term, depth int) bool {
	if t.IsConst() {
		return true
	}
	if t.Op != OpIte || depth == 0 {
		return false
	}
	if t.cl != 0 {
		return t.cl == 1
	}
	r := constLeafIte(t.Args[1], depth-1) && constLeafIte(t.Args[2], depth-1)
	if r {
		t.cl = 1
	} else {
		t.cl = 2
	}
	return r
}

func (c *Ctx) Eq(a, b *Term) *Term {
	if a.Width != b.Width {
		panic(fmt.Sprintf("Eq width mismatch %d %d", a.Width, b.Width))
	}
	if a == b {
		return c.T
	}
	if a.IsConst() && b.IsConst() {
		return c.Bool(a.Val == b.Val)
	}
	if a.Width == 0 {
		if a.IsTrue() {
			return b
		}
		if b.IsTrue() {
			return a
		}
		if a.IsFalse() {
			return c.Not(b)
		}
		if b.IsFalse() {
			return c.Not(a)
		}
	}
	if a.IsConst() {
		a, b = b, a
	}
	if b.IsConst() && a.Op == OpVar && a.Width == 8 {
		if !c.domHas(a, b.Val) {
			return c.F
		}
		if lo, hi, ok := c.domRange(a); ok && lo == hi && lo == b.Val {
			return c.T
		}
	}
	// push equality with a constant through ite-trees with constant leaves
	if b.IsConst() && a.Op == OpIte && constLeafIte(a, 24) {
		mk := memoKey{op: OpEq, a: a.ID, b: b.ID}
		if r, ok := c.memo[mk]; ok {
			return r
		}
		r := c.Ite(a.Args[0], c.Eq(a.Args[1], b), c.Eq(a.Args[2], b))
		c.memo[mk] = r
		return r
	}
	if b.IsConst() && a.Op == OpZext {
		// zext(x) == k
		in := a.Args[0]
		if b.Val>>uint(in.Width) != 0 {
			return c.F
		}
		return c.Eq(in, c.BV(in.Width, b.Val))
	}
	if a.ID > b.ID {
		a, b = b, a
	}
	return c.mk(key{op: OpEq}, []*Term{a, b})
}

func (c *Ctx) Ne(a, b *Term) *Term { return c.Not(c.Eq(a, b)) }

func (c *Ctx) cmp(op Op, a, b *Term) *Term {
	if a.Width != b.Width || a.Width == 0 {
		panic(fmt.Sprintf("cmp width mismatch %d %d", a.Width, b.Width))
	}
	if a.IsConst() && b.IsConst() {
		switch op {
		case OpUlt:
			return c.Bool(a.Val < b.Val)
		case OpUle:
			return c.Bool(a.Val <= b.Val)
		case OpSlt:
			return c.Bool(a.SInt() < b.SInt())
		case OpSle:
			return c.Bool(a.SInt() <= b.SInt())
		}
	}
	if a == b {
		return c.Bool(op == OpUle || op == OpSle)
	}
	if op == OpUlt && b.IsConst() && b.Val == 0 {
		return c.F
	}
	if (op == OpUlt || op == OpUle) && a.Width == 8 {
		// unsigned comparisons of a domain-restricted byte with a constant
		if a.Op == OpVar && b.IsConst() {
			if lo, hi, ok := c.domRange(a); ok {
				if (op == OpUlt && hi < b.Val) || (op == OpUle && hi <= b.Val) {
					return c.T
				}
				if (op == OpUlt && lo >= b.Val) || (op == OpUle && lo > b.Val) {
					return c.F
				}
			}
		}
		if b.Op == OpVar && a.IsConst() {
			if lo, hi, ok := c.domRange(b); ok {
				if (op == OpUlt && a.Val < lo) || (op == OpUle && a.Val <= lo) {
					return c.T
				}
				if (op == OpUlt && a.Val >= hi) || (op == OpUle && a.Val > hi) {
					return c.F
				}
			}
		}
	}
	if op == OpUle && a.IsConst() && a.Val == 0 {
		return c.T
	}
	// comparisons of zero-extended values with small constants: signed == unsigned
	if (a.IsConst() || constLeafIte(a, 24)) && (b.IsConst() || constLeafIte(b, 24)) {
		mk := memoKey{op: op, a: a.ID, b: b.ID}
		if r, ok := c.memo[mk]; ok {
			return r
		}
		var r *Term
		if a.Op == OpIte {
			r = c.Ite(a.Args[0], c.cmp(op, a.Args[1], b), c.cmp(op, a.Args[2], b))
		} else if b.Op == OpIte {
			r = c.Ite(b.Args[0], c.cmp(op, a, b.Args[1]), c.cmp(op, a, b.Args[2]))
		}
		if r != nil {
			c.memo[mk] = r
			return r
		}
	}
	return c.mk(key{op: op}, []*Term{a, b})
}

func (c *Ctx) Ult(a, b *Term) *Term { return c.cmp(OpUlt, a, b) }
func (c *Ctx) Ule(a, b *Term) *Term { return c.cmp(OpUle, a, b) }
func (c *Ctx) Slt(a, b *Term) *Term { return c.cmp(OpSlt, a, b) }
func (c *Ctx) Sle(a, b *Term) *Term { return c.cmp(OpSle, a, b) }
func (c *Ctx) Ugt(a, b *Term) *Term { return c.cmp(OpUlt, b, a) }
func (c *Ctx) Uge(a, b *Term) *Term { return c.cmp(OpUle, b, a) }
func (c *Ctx) Sgt(a, b *Term) *Term { return c.cmp(OpSlt, b, a) }
func (c *Ctx) Sge(a, b *Term) *Term { return c.cmp(OpSle, b, a) }

func (c *Ctx) arith(op Op, a, b *Term) *Term {
	if a.Width != b.Width || a.Width == 0 {
		panic(fmt.Sprintf("arith width mismatch op=%d %d %d", op, a.Width, b.Width))
	}
	w := a.Width
	if a.IsConst() && b.IsConst() {
		var v uint64
		switch op {
		case OpAdd:
			v = a.Val + b.Val
		case OpSub:
			v = a.Val - b.Val
		case OpMul:
			v = a.Val * b.Val
		case OpBvAnd:
			v = a.Val & b.Val
		case OpBvOr:
			v = a.Val | b.Val
		case OpBvXor:
			v = a.Val ^ b.Val
		case OpShl:
			if b.Val >= 64 {
				v = 0
			} else {
				v = a.Val << b.Val
			}
		case OpLshr:
			if b.Val >= 64 {
				v = 0
			} else {
				v = a.Val >> b.Val
			}
		case OpUdiv:
			if b.Val == 0 {
				v = mask(w)
			} else {
				v = a.Val / b.Val
			}
		case OpUrem:
			if b.Val == 0 {
				v = a.Val
			} else {
				v = a.Val % b.Val
			}
		}
		return c.BV(w, v)
	}
	switch op {
	case OpAdd:
		if a.IsConst() && a.Val == 0 {
			return b
		}
		if b.IsConst() && b.Val == 0 {
			return a
		}
		if a.IsConst() {
			a, b = b, a
		}
		// (x + k1) + k2
		if b.IsConst() && a.Op == OpAdd && a.Args[1].IsConst() {
			return c.arith(OpAdd, a.Args[0], c.BV(w, a.Args[1].Val+b.Val))
		}
	case OpSub:
		if b.IsConst() && b.Val == 0 {
			return a
		}
		if a == b {
			return c.BV(w, 0)
		}
		if b.IsConst() {
			return c.arith(OpAdd, a, c.BV(w, -b.Val))
		}
	case OpMul:
		if a.IsConst() {
			a, b = b, a
		}
		if b.IsConst() && b.Val == 1 {
			return a
		}
		if b.IsConst() && b.Val == 0 {
			return b
		}
	}
	// distribute over ite-trees with constant leaves when the other side is constant
	if b.IsConst() && a.Op == OpIte && constLeafIte(a, 24) {
		mk := memoKey{op: op, a: a.ID, b: b.ID, x: 1}
		if r, ok := c.memo[mk]; ok {
			return r
		}
		r := c.Ite(a.Args[0], c.arith(op, a.Args[1], b), c.arith(op, a.Args[2], b))
		c.memo[mk] = r
		return r
	}
	if a.IsConst() && b.Op == OpIte && constLeafIte(b, 24) {
		mk := memoKey{op: op, a: a.ID, b: b.ID, x: 2}
		if r, ok := c.memo[mk]; ok {
			return r
		}
		r := c.Ite(b.Args[0], c.arith(op, a, b.Args[1]), c.arith(op, a, b.Args[2]))
		c.memo[mk] = r
		return r
	}
	return c.mk(key{op: op, width: w}, []*Term{a, b})
}

func (c *Ctx) Add(a, b *Term) *Term   { return c.arith(OpAdd, a, b) }
func (c *Ctx) Sub(a, b *Term) *Term   { return c.arith(OpSub, a, b) }
func (c *Ctx) Mul(a, b *Term) *Term   { return c.arith(OpMul, a, b) }
func (c *Ctx) BvAnd(a, b *Term) *Term { return c.arith(OpBvAnd, a, b) }
func (c *Ctx) BvOr(a, b *Term) *Term  { return c.arith(OpBvOr, a, b) }
func (c *Ctx) BvXor(a, b *Term) *Term { return c.arith(OpBvXor, a, b) }
func (c *Ctx) Shl(a, b *Term) *Term   { return c.arith(OpShl, a, b) }
func (c *Ctx) Lshr(a, b *Term) *Term  { return c.arith(OpLshr, a, b) }
func (c *Ctx) Udiv(a, b *Term) *Term  { return c.arith(OpUdiv, a, b) }
func (c *Ctx) Urem(a, b *Term) *Term  { return c.arith(OpUrem, a, b) }

func (c *Ctx) Extract(a *Term, hi, lo int) *Term {
	w := hi - lo + 1
	if w == a.Width && lo == 0 {
		return a
	}
	if a.IsConst() {
		return c.BV(w, a.Val>>uint(lo))
	}
	if a.Op == OpZext && hi < a.Args[0].Width {
		return c.Extract(a.Args[0], hi, lo)
	}
	if a.Op == OpIte && constLeafIte(a, 24) {
		mk := memoKey{op: OpExtract, a: a.ID, x: hi, y: lo}
		if r, ok := c.memo[mk]; ok {
			return r
		}
		r := c.Ite(a.Args[0], c.Extract(a.Args[1], hi, lo), c.Extract(a.Args[2], hi, lo))
		c.memo[mk] = r
		return r
	}
	return c.mk(key{op: OpExtract, width: w, lo: lo}, []*Term{a})
}

func (c *Ctx) Zext(a *Term, to int) *Term {
	if to == a.Width {
		return a
	}
	if to < a.Width {
		return c.Extract(a, to-1, 0)
	}
	if a.IsConst() {
		return c.BV(to, a.Val)
	}
	if a.Op == OpZext {
		return c.Zext(a.Args[0], to)
	}
	if a.Op == OpIte && constLeafIte(a, 24) {
		mk := memoKey{op: OpZext, a: a.ID, x: to}
		if r, ok := c.memo[mk]; ok {
			return r
		}
		r := c.Ite(a.Args[0], c.Zext(a.Args[1], to), c.Zext(a.Args[2], to))
		c.memo[mk] = r
		return r
	}
	return c.mk(key{op: OpZext, width: to, lo: to - a.Width}, []*Term{a})
}

func (c *Ctx) Sext(a *Term, to int) *Term {
	if to == a.Width {
		return a
	}
	if to < a.Width {
		return c.Extract(a, to-1, 0)
	}
	if a.IsConst() {
		return c.BV(to, uint64(a.SInt()))
	}
	return c.mk(key{op: OpSext, width: to, lo: to - a.Width}, []*Term{a})
}

// Resize converts a to width w (zero- or sign-extending, or truncating).
func (c *Ctx) Resize(a *Term, w int, signed bool) *Term {
	if signed {
		return c.Sext(a, w)
	}
	return c.Zext(a, w)
}

// ---------------------------------------------------------------- evaluation

// Eval computes the value of t under an assignment of variables (missing = 0).
func Eval(t *Term, env map[string]uint64, memo map[*Term]uint64) uint64 {
	if v, ok := memo[t]; ok {
		return v
	}
	var v uint64
	a := func(i int) uint64 { return Eval(t.Args[i], env, memo) }
	sx := func(i int) int64 {
		x := a(i)
		w := t.Args[i].Width
		if w < 64 && x&(1<<uint(w-1)) != 0 {
			x |= ^uint64(0) << uint(w)
		}
		return int64(x)
	}
	b2u := func(b bool) uint64 {
		if b {
			return 1
		}
		return 0
	}
	switch t.Op {
	case OpConst:
		v = t.Val
	case OpVar:
		v = env[t.Name]
	case OpNot:
		v = 1 - a(0)
	case OpAnd:
		v = a(0) & a(1)
	case OpOr:
		v = a(0) | a(1)
	case OpIte:
		if a(0) == 1 {
			v = a(1)
		} else {
			v = a(2)
		}
	case OpEq:
		v = b2u(a(0) == a(1))
	case OpUlt:
		v = b2u(a(0) < a(1))
	case OpUle:
		v = b2u(a(0) <= a(1))
	case OpSlt:
		v = b2u(sx(0) < sx(1))
	case OpSle:
		v = b2u(sx(0) <= sx(1))
	case OpAdd:
		v = a(0) + a(1)
	case OpSub:
		v = a(0) - a(1)
	case OpMul:
		v = a(0) * a(1)
	case OpBvAnd:
		v = a(0) & a(1)
	case OpBvOr:
		v = a(0) | a(1)
	case OpBvXor:
		v = a(0) ^ a(1)
	case OpShl:
		if a(1) >= 64 {
			v = 0
		} else {
			v = a(0) << a(1)
		}
	case OpLshr:
		if a(1) >= 64 {
			v = 0
		} else {
			v = a(0) >> a(1)
		}
	case OpUdiv:
		if a(1) == 0 {
			v = mask(t.Width)
		} else {
			v = a(0) / a(1)
		}
	case OpUrem:
		if a(1) == 0 {
			v = a(0)
		} else {
			v = a(0) % a(1)
		}
	case OpExtract:
		v = a(0) >> uint(t.Lo)
	case OpZext:
		v = a(0)
	case OpSext:
		v = uint64(sx(0))
	case OpConcat:
		v = a(0)<<uint(t.Args[1].Width) | a(1)
	}
	if t.Width > 0 {
		v &= mask(t.Width)
	}
	memo[t] = v
	return v
}

// ---------------------------------------------------------------- printing

func sortOf(w int) string {
	if w == 0 {
		return "Bool"
	}
	return fmt.Sprintf("(_ BitVec %d)", w)
}

func constStr(t *Term) string {
	if t.Width == 0 {
		if t.Val == 1 {
			return "true"
		}
		return "false"
	}
	if t.Width%4 == 0 {
		return fmt.Sprintf("#x%0*x", t.Width/4, t.Val)
	}
	return fmt.Sprintf("#b%0*b", t.Width, t.Val)
}

var opName = map[Op]string{
	OpNot: "not", OpAnd: "and", OpOr: "or", OpIte: "ite", OpEq: "=",
	OpUlt: "bvult", OpUle: "bvule", OpSlt: "bvslt", OpSle: "bvsle",
	OpAdd: "bvadd", OpSub: "bvsub", OpMul: "bvmul", OpBvAnd: "bvand", OpBvOr: "bvor", OpBvXor: "bvxor",
	OpShl: "bvshl", OpLshr: "bvlshr", OpConcat: "concat", OpUdiv: "bvudiv", OpUrem: "bvurem",
}

func VarSMTName(name string) string { return "|" + name + "|" }

// ref returns how a term is referred to inside other terms.
func ref(t *Term) string {
	switch t.Op {
	case OpConst:
		return constStr(t)
	case OpVar:
		return VarSMTName(t.Name)
	}
	return fmt.Sprintf("t%d", t.ID)
}

// body prints the defining expression of a non-leaf term using refs of its args.
func body(t *Term) string {
	switch t.Op {
	case OpExtract:
		return fmt.Sprintf("((_ extract %d %d) %s)", t.Lo+t.Width-1, t.Lo, ref(t.Args[0]))
	case OpZext:
		return fmt.Sprintf("((_ zero_extend %d) %s)", t.Lo, ref(t.Args[0]))
	case OpSext:
		return fmt.Sprintf("((_ sign_extend %d) %s)", t.Lo, ref(t.Args[0]))
	}
	var sb strings.Builder
	sb.WriteString("(")
	sb.WriteString(opName[t.Op])
	for _, a := range t.Args {
		sb.WriteString(" ")
		sb.WriteString(ref(a))
	}
	sb.WriteString(")")
	return sb.String()
}

// Emitter tracks which terms have been defined in a solver session (with scopes).
type Emitter struct {
	defined []map[int]bool
}

func NewEmitter() *Emitter { return &Emitter{defined: []map[int]bool{{}}} }

func (e *Emitter) Push() { e.defined = append(e.defined, map[int]bool{}) }
func (e *Emitter) Pop()  { e.defined = e.defined[:len(e.defined)-1] }
func (e *Emitter) Depth() int {
	return len(e.defined)
}
func (e *Emitter) isDef(id int) bool {
	for _, m := range e.defined {
		if m[id] {
			return true
		}
	}
	return false
}

// Define writes declarations / definitions needed for t into sb and returns its ref.
func (e *Emitter) Define(t *Term, sb *strings.Builder) string {
	// iterative post-order
	type fr struct {
		t *Term
		i int
	}
	stack := []fr{{t, 0}}
	for len(stack) > 0 {
		f := &stack[len(stack)-1]
		tt := f.t
		if tt.Op == OpConst || e.isDef(tt.ID) {
			stack = stack[:len(stack)-1]
			continue
		}
		if f.i < len(tt.Args) {
			a := tt.Args[f.i]
			f.i++
			if a.Op != OpConst && !e.isDef(a.ID) {
				stack = append(stack, fr{a, 0})
			}
			continue
		}
		cur := e.defined[len(e.defined)-1]
		if tt.Op == OpVar {
			fmt.Fprintf(sb, "(declare-fun %s () %s)\n", VarSMTName(tt.Name), sortOf(tt.Width))
		} else {
			fmt.Fprintf(sb, "(define-fun t%d () %s %s)\n", tt.ID, sortOf(tt.Width), body(tt))
		}
		cur[tt.ID] = true
		stack = stack[:len(stack)-1]
	}
	return ref(t)
}

// String renders a term as a (possibly large) nested expression, for diagnostics.
func (t *Term) String() string {
	return t.str(0)
}

func (t *Term) str(d int) string {
	if t.Op == OpConst {
		if t.Width == 0 {
			return constStr(t)
		}
		return fmt.Sprintf("%d:%d", t.Val, t.Width)
	}
	if t.Op == OpVar {
		return t.Name
	}
	if d > 6 {
		return fmt.Sprintf("t%d", t.ID)
	}
	s := "(" + opName[t.Op]
	if t.Op == OpExtract {
		s = fmt.Sprintf("(extract[%d:%d]", t.Lo+t.Width-1, t.Lo)
	} else if t.Op == OpZext {
		s = "(zext"
	} else if t.Op == OpSext {
		s = "(sext"
	}
	for _, a := range t.Args {
		s += " " + a.str(d+1)
	}
	return s + ")"
}
