package sym

import (
	"fmt"
	"regexp/syntax"
	"unicode/utf8"
)

// Regex fragment on symbolic subjects: a concatenation of single-character atoms
// (literal byte, character class, any-char) each with quantifier 1, *, +, ? (greedy),
// optionally anchored with ^ / $. Capture groups are looked through (captures are not
// produced). Leftmost-first (Perl / Go regexp) semantics for the match end.

type reAtom struct {
	pred     func(c *Ctx, ch *Term) *Term
	min, max int // max -1 = unbounded
}

type Regex struct {
	Src      string
	atoms    []reAtom
	bol, eol bool
	minLen   int
}

func classPred(re *syntax.Regexp) (func(c *Ctx, ch *Term) *Term, error) {
	switch re.Op {
	case syntax.OpLiteral:
		if len(re.Rune) != 1 {
			return nil, fmt.Errorf("multi-rune literal")
		}
		r := re.Rune[0]
		if r >= utf8.RuneSelf {
			return nil, fmt.Errorf("non-ASCII literal")
		}
		fold := re.Flags&syntax.FoldCase != 0
		return func(c *Ctx, ch *Term) *Term {
			e := c.Eq(ch, c.BV(8, uint64(r)))
			if fold && ((r >= 'a' && r <= 'z') || (r >= 'A' && r <= 'Z')) {
				e = c.Or(e, c.Eq(ch, c.BV(8, uint64(r^0x20))))
			}
			return e
		}, nil
	case syntax.OpCharClass:
		rs := append([]rune(nil), re.Rune...)
		return func(c *Ctx, ch *Term) *Term {
			// subjects are byte strings restricted to ASCII by the harness alphabet;
			// bytes >= 0x80 never match a class here (stated in DESIGN.md)
			r := c.F
			for i := 0; i+1 < len(rs); i += 2 {
				lo, hi := rs[i], rs[i+1]
				if lo >= utf8.RuneSelf {
					continue
				}
				if hi >= utf8.RuneSelf {
					hi = utf8.RuneSelf - 1
				}
				if lo == hi {
					r = c.Or(r, c.Eq(ch, c.BV(8, uint64(lo))))
				} else {
					r = c.Or(r, c.CharRange(ch, byte(lo), byte(hi)))
				}
			}
			return c.And(r, c.Ult(ch, c.BV(8, 0x80)))
		}, nil
	case syntax.OpAnyCharNotNL:
		return func(c *Ctx, ch *Term) *Term {
			return c.And(c.Not(c.Eq(ch, c.BV(8, '\n'))), c.Ult(ch, c.BV(8, 0x80)))
		}, nil
	case syntax.OpAnyChar:
		return func(c *Ctx, ch *Term) *Term { return c.Ult(ch, c.BV(8, 0x80)) }, nil
	case syntax.OpCapture:
		return classPred(re.Sub[0])
	}
	return nil, fmt.Errorf("unsupported atom %v", re.Op)
}

func (rx *Regex) addNode(re *syntax.Regexp) error {
	switch re.Op {
	case syntax.OpEmptyMatch:
		return nil
	case syntax.OpConcat:
		for _, s := range re.Sub {
			if err := rx.addNode(s); err != nil {
				return err
			}
		}
		return nil
	case syntax.OpCapture:
		return rx.addNode(re.Sub[0])
	case syntax.OpBeginText:
		if len(rx.atoms) != 0 {
			return fmt.Errorf("^ not at start")
		}
		rx.bol = true
		return nil
	case syntax.OpEndText:
		rx.eol = true
		return nil
	case syntax.OpLiteral:
		for _, r := range re.Rune {
			p, err := classPred(&syntax.Regexp{Op: syntax.OpLiteral, Rune: []rune{r}, Flags: re.Flags})
			if err != nil {
				return err
			}
			if rx.eol {
				return fmt.Errorf("atom after $")
			}
			rx.atoms = append(rx.atoms, reAtom{p, 1, 1})
		}
		return nil
	case syntax.OpCharClass, syntax.OpAnyCharNotNL, syntax.OpAnyChar:
		p, err := classPred(re)
		if err != nil {
			return err
		}
		if rx.eol {
			return fmt.Errorf("atom after $")
		}
		rx.atoms = append(rx.atoms, reAtom{p, 1, 1})
		return nil
	case syntax.OpStar, syntax.OpPlus, syntax.OpQuest:
		if re.Flags&syntax.NonGreedy != 0 {
			return fmt.Errorf("non-greedy quantifier")
		}
		p, err := classPred(re.Sub[0])
		if err != nil {
			return err
		}
		if rx.eol {
			return fmt.Errorf("atom after $")
		}
		a := reAtom{p, 0, -1}
		if re.Op == syntax.OpPlus {
			a.min = 1
		}
		if re.Op == syntax.OpQuest {
			a.max = 1
		}
		rx.atoms = append(rx.atoms, a)
		return nil
	}
	return fmt.Errorf("unsupported regex node %v in fragment", re.Op)
}

// CompileRegex parses a Go regular expression into the supported fragment.
func CompileRegex(src string) (*Regex, error) {
	re, err := syntax.Parse(src, syntax.Perl)
	if err != nil {
		return nil, err
	}
	rx := &Regex{Src: src}
	if err := rx.addNode(re); err != nil {
		return nil, fmt.Errorf("regex %q: %v", src, err)
	}
	for _, a := range rx.atoms {
		rx.minLen += a.min
	}
	return rx, nil
}

const reFail = uint64(0xffff)

// ends computes, for every start position p in 0..n, the preferred match end E[p]
// (LW-bit term, reFail = no match) under leftmost-first greedy semantics.
func (rx *Regex) ends(c *Ctx, s *Str) []*Term {
	n := len(s.Ch)
	fail := c.BV(LW, reFail)
	// next[p] = end for atoms k+1.. from position p
	next := make([]*Term, n+2)
	for p := 0; p <= n; p++ {
		ok := c.Ule(c.L(p), s.Len)
		if rx.eol {
			ok = c.Eq(s.Len, c.L(p))
		}
		next[p] = c.Ite(ok, c.L(p), fail)
	}
	next[n+1] = fail
	for k := len(rx.atoms) - 1; k >= 0; k-- {
		a := rx.atoms[k]
		cur := make([]*Term, n+2)
		cur[n+1] = fail
		for p := n; p >= 0; p-- {
			// run[cnt]: chars p..p+cnt-1 are live and satisfy pred
			res := fail
			run := c.T
			maxc := n - p
			if a.max >= 0 && a.max < maxc {
				maxc = a.max
			}
			// ascending count; a later (larger) feasible count overrides => greedy
			for cnt := 0; cnt <= maxc; cnt++ {
				if cnt > 0 {
					j := p + cnt - 1
					run = c.And(run, c.Ult(c.L(j), s.Len), a.pred(c, s.Ch[j]))
				}
				if run.IsFalse() {
					break
				}
				if cnt < a.min {
					continue
				}
				nx := next[p+cnt]
				okc := c.And(run, c.Not(c.Eq(nx, fail)))
				res = c.Ite(okc, nx, res)
			}
			cur[p] = res
		}
		next = cur
	}
	return next[:n+1]
}

// Match implements (*Regexp).MatchString.
func (rx *Regex) Match(c *Ctx, s *Str) *Term {
	e := rx.ends(c, s)
	fail := c.BV(LW, reFail)
	if rx.bol {
		return c.Not(c.Eq(e[0], fail))
	}
	r := c.F
	for p := range e {
		r = c.Or(r, c.Not(c.Eq(e[p], fail)))
	}
	return r
}

// ReplaceAll implements (*Regexp).ReplaceAllString for a replacement without $-expansion
// and a pattern that cannot match the empty string.
func (rx *Regex) ReplaceAll(c *Ctx, s *Str, repl *Str) (*Str, error) {
	if rx.minLen < 1 {
		return nil, fmt.Errorf("regex %q may match the empty string: ReplaceAll unsupported on symbolic subject", rx.Src)
	}
	s = s.Trim()
	e := rx.ends(c, s)
	fail := c.BV(LW, reFail)
	n := len(s.Ch)
	capacity := n
	if len(repl.Ch) > rx.minLen {
		capacity += (n / rx.minLen) * (len(repl.Ch) - rx.minLen)
	}
	b := c.newBuilder(capacity)
	skip := c.L(0)
	for i := 0; i < n; i++ {
		active := c.And(c.Ule(skip, c.L(i)), c.Ult(c.L(i), s.Len))
		if active.IsFalse() {
			continue
		}
		m := c.And(active, c.Not(c.Eq(e[i], fail)))
		if rx.bol && i > 0 {
			m = c.F
		}
		b.appendStrIf(m, repl)
		b.appendCharIf(c.And(active, c.Not(m)), s.Ch[i])
		skip = c.Ite(m, e[i], skip)
	}
	return b.str(), nil
}
