package smt

import (
	"bytes"
	"os"
	"context"
	"fmt"
	"os/exec"
	"strings"
	"time"

	"verif/engine/sym"
)

// OneShot keeps the assertion stack itself and runs a fresh solver process per query
// with (set-logic QF_BV), which lets z3 use its bit-blasting tactic pipeline instead of
// the incremental core.
var dumpN int

type oneShot struct {
	bin    string
	args   []string
	stack  [][]*sym.Term
	model  map[string]uint64
}

func (s *Solver) oneShotCheck(wantModel bool, vars []*sym.Term) (Result, map[string]uint64, string) {
	o := s.os
	var sb strings.Builder
	sb.WriteString("(set-logic QF_BV)\n")
	if wantModel {
		sb.WriteString("(set-option :produce-models true)\n")
	}
	em := sym.NewEmitter()
	var refs []string
	for _, fr := range o.stack {
		for _, t := range fr {
			refs = append(refs, em.Define(t, &sb))
		}
	}
	for _, r := range refs {
		fmt.Fprintf(&sb, "(assert %s)\n", r)
	}
	sb.WriteString("(check-sat)\n")
	if wantModel && len(vars) > 0 {
		// make sure all requested vars are declared
		for _, v := range vars {
			em.Define(v, &sb)
		}
		sb.WriteString("(get-value (")
		for _, v := range vars {
			sb.WriteString(sym.VarSMTName(v.Name))
			sb.WriteString(" ")
		}
		sb.WriteString("))\n")
	}
	to := s.Timeout
	if to == 0 {
		to = 10 * time.Minute
	}
	ctx, cancel := context.WithTimeout(context.Background(), to+2*time.Second)
	defer cancel()
	args := append([]string{}, o.args...)
	if strings.HasPrefix(o.bin, "z3") {
		args = append(args, fmt.Sprintf("-T:%d", int(to.Seconds())+1))
	}
	cmd := exec.CommandContext(ctx, o.bin, args...)
	cmd.Stdin = strings.NewReader(sb.String())
	var out bytes.Buffer
	cmd.Stdout = &out
	t0 := time.Now()
	cmd.Run()
	if d := os.Getenv("VERIF_DUMP"); d != "" && time.Since(t0) > 2*time.Second {
		dumpN++
		os.WriteFile(fmt.Sprintf("%s/q%d_%dms.smt2", d, dumpN, time.Since(t0).Milliseconds()), []byte(sb.String()), 0644)
	}
	txt := out.String()
	first := strings.TrimSpace(strings.SplitN(txt, "\n", 2)[0])
	if strings.Contains(txt, "(error") {
		return Unknown, nil, "solver error: " + first
	}
	switch first {
	case "sat":
		var mod map[string]uint64
		if wantModel {
			mod = map[string]uint64{}
			rest := ""
			if i := strings.Index(txt, "\n"); i >= 0 {
				rest = txt[i+1:]
			}
			parseValues(rest, mod)
		}
		return Sat, mod, ""
	case "unsat":
		return Unsat, nil, ""
	}
	return Unknown, nil, "answer: " + first
}
