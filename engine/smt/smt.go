// Package smt drives a persistent SMT solver process (z3 -in / z3-new -in / cvc5).
package smt

import (
	"bufio"
	"fmt"
	"io"
	"os/exec"
	"strconv"
	"strings"
	"sync/atomic"
	"time"

	"verif/engine/sym"
)

type Result int

const (
	Unsat Result = iota
	Sat
	Unknown
)

func (r Result) String() string { return [...]string{"unsat", "sat", "unknown"}[r] }

// Stats are shared by all solvers of a run (atomic counters).
type Stats struct {
	Queries, SatN, UnsatN, UnknownN int64
	SolverNS                       int64
	MaxQueryNS                     int64
}

func (s *Stats) add(r Result, d time.Duration) {
	atomic.AddInt64(&s.Queries, 1)
	switch r {
	case Sat:
		atomic.AddInt64(&s.SatN, 1)
	case Unsat:
		atomic.AddInt64(&s.UnsatN, 1)
	default:
		atomic.AddInt64(&s.UnknownN, 1)
	}
	atomic.AddInt64(&s.SolverNS, int64(d))
	for {
		old := atomic.LoadInt64(&s.MaxQueryNS)
		if int64(d) <= old || atomic.CompareAndSwapInt64(&s.MaxQueryNS, old, int64(d)) {
			break
		}
	}
}

type Solver struct {
	Name    string
	cmd     *exec.Cmd
	in      io.WriteCloser
	out     *bufio.Reader
	em      *sym.Emitter
	Stats   *Stats
	Timeout time.Duration
	Log     io.Writer // optional transcript
	dead    bool
	LastErr string
	os      *oneShot
	nassume int
}

// Start launches a solver. kind: "z3", "z3-new", "cvc5".
func Start(kind string, timeout time.Duration, st *Stats) (*Solver, error) {
	var cmd *exec.Cmd
	if st == nil {
		st = &Stats{}
	}
	switch kind {
	case "z3-oneshot":
		return &Solver{Name: kind, Stats: st, Timeout: timeout, os: &oneShot{bin: "z3", args: []string{"-in", "-smt2"}, stack: [][]*sym.Term{nil}}}, nil
	case "z3-new-oneshot":
		return &Solver{Name: kind, Stats: st, Timeout: timeout, os: &oneShot{bin: "z3-new", args: []string{"-in", "-smt2"}, stack: [][]*sym.Term{nil}}}, nil
	case "cvc5-oneshot":
		return &Solver{Name: kind, Stats: st, Timeout: timeout, os: &oneShot{bin: "cvc5", args: []string{"--lang=smt2", "--bitblast=eager", "--produce-models"}, stack: [][]*sym.Term{nil}}}, nil
	}
	switch kind {
	case "z3":
		cmd = exec.Command("z3", "-in", "-smt2")
	case "z3-new":
		cmd = exec.Command("z3-new", "-in", "-smt2")
	case "cvc5":
		cmd = exec.Command("cvc5", "--incremental", "--lang=smt2", "--bitblast=eager", "--produce-models")
	default:
		return nil, fmt.Errorf("unknown solver %q", kind)
	}
	in, err := cmd.StdinPipe()
	if err != nil {
		return nil, err
	}
	outp, err := cmd.StdoutPipe()
	if err != nil {
		return nil, err
	}
	cmd.Stderr = nil
	if err := cmd.Start(); err != nil {
		return nil, err
	}
	if st == nil {
		st = &Stats{}
	}
	s := &Solver{Name: kind, cmd: cmd, in: in, out: bufio.NewReaderSize(outp, 1<<16), em: sym.NewEmitter(), Stats: st, Timeout: timeout}
	s.send("(set-option :print-success false)\n(set-option :produce-models true)\n")
	if kind == "cvc5" {
		s.send("(set-logic QF_BV)\n")
	}
	if strings.HasPrefix(kind, "z3") && timeout > 0 {
		s.send(fmt.Sprintf("(set-option :timeout %d)\n", timeout.Milliseconds()))
	}
	return s, nil
}

func (s *Solver) send(txt string) {
	if s.dead {
		return
	}
	if s.Log != nil {
		io.WriteString(s.Log, txt)
	}
	if _, err := io.WriteString(s.in, txt); err != nil {
		s.dead = true
		s.LastErr = err.Error()
	}
}

func (s *Solver) Close() {
	if s.os != nil {
		return
	}
	if s.cmd == nil {
		return
	}
	s.send("(exit)\n")
	s.in.Close()
	done := make(chan struct{})
	go func() { s.cmd.Wait(); close(done) }()
	select {
	case <-done:
	case <-time.After(2 * time.Second):
		s.cmd.Process.Kill()
		<-done
	}
	s.cmd = nil
}

func (s *Solver) Kill() {
	if s.cmd != nil && s.cmd.Process != nil {
		s.cmd.Process.Kill()
	}
	s.dead = true
}

func (s *Solver) Push() {
	if s.os != nil {
		s.os.stack = append(s.os.stack, nil)
		return
	}
	s.send("(push 1)\n")
	s.em.Push()
}

func (s *Solver) Pop() {
	if s.os != nil {
		s.os.stack = s.os.stack[:len(s.os.stack)-1]
		return
	}
	s.send("(pop 1)\n")
	s.em.Pop()
}

func (s *Solver) Depth() int {
	if s.os != nil {
		return len(s.os.stack)
	}
	return s.em.Depth()
}

func (s *Solver) Assert(t *sym.Term) {
	if t.IsTrue() {
		return
	}
	if s.os != nil {
		n := len(s.os.stack) - 1
		s.os.stack[n] = append(s.os.stack[n], t)
		return
	}
	var sb strings.Builder
	r := s.em.Define(t, &sb)
	fmt.Fprintf(&sb, "(assert %s)\n", r)
	s.send(sb.String())
}

func (s *Solver) readLine() (string, error) {
	line, err := s.out.ReadString('\n')
	return strings.TrimSpace(line), err
}

// Check runs (check-sat). Any error line or unexpected output yields Unknown.
func (s *Solver) Check() Result {
	if s.os != nil {
		t0 := time.Now()
		r, _, e := s.oneShotCheck(false, nil)
		if e != "" {
			s.LastErr = e
		}
		s.Stats.add(r, time.Since(t0))
		return r
	}
	return s.checkCmd("(check-sat)\n")
}

func (s *Solver) checkCmd(cmdText string) Result {
	if s.dead {
		if !strings.HasPrefix(s.LastErr, "dead:") {
			s.LastErr = "dead: " + s.LastErr
		}
		return Unknown
	}
	t0 := time.Now()
	s.send(cmdText)
	type rl struct {
		line string
		err  error
	}
	ch := make(chan rl, 1)
	go func() {
		l, e := s.readLine()
		ch <- rl{l, e}
	}()
	var res Result = Unknown
	hard := s.Timeout*2 + 5*time.Second
	if s.Timeout == 0 {
		hard = 10 * time.Minute
	}
	select {
	case r := <-ch:
		switch {
		case r.err != nil:
			s.dead = true
			s.LastErr = "solver died: " + r.err.Error()
		case r.line == "sat":
			res = Sat
		case r.line == "unsat":
			res = Unsat
		case r.line == "unknown" || r.line == "timeout":
			res = Unknown
			s.LastErr = r.line
		default:
			// (error ...) or garbage: inconclusive, and the session is no longer trusted
			s.LastErr = "unexpected solver output: " + r.line
			s.dead = true
			s.cmd.Process.Kill()
		}
	case <-time.After(hard):
		s.LastErr = "hard timeout"
		s.dead = true
		s.cmd.Process.Kill()
	}
	s.Stats.add(res, time.Since(t0))
	return res
}

// CheckAssuming decides pc ∧ t without opening a scope: t is bound to a fresh Boolean
// constant which is passed as an assumption literal. The model (if sat) can be read
// directly afterwards.
func (s *Solver) CheckAssuming(t *sym.Term) Result {
	if s.os != nil {
		s.Push()
		s.Assert(t)
		r := s.Check()
		s.Pop()
		return r
	}
	if t.IsTrue() {
		return s.Check()
	}
	if t.IsFalse() {
		return Unsat
	}
	var sb strings.Builder
	r := s.em.Define(t, &sb)
	s.nassume++
	a := fmt.Sprintf("asm%d", s.nassume)
	fmt.Fprintf(&sb, "(declare-const %s Bool)\n(assert (= %s %s))\n", a, a, r)
	s.send(sb.String())
	return s.checkCmd("(check-sat-assuming (" + a + "))\n")
}

// CheckWith asserts extra terms in a nested scope and checks.
func (s *Solver) CheckWith(ts ...*sym.Term) Result {
	s.Push()
	for _, t := range ts {
		if t.IsFalse() {
			s.Pop()
			return Unsat
		}
		s.Assert(t)
	}
	r := s.Check()
	s.Pop()
	return r
}

// Model reads values of the given variables after a Sat answer (same scope).
func (s *Solver) Model(vars []*sym.Term) (map[string]uint64, error) {
	res := map[string]uint64{}
	if len(vars) == 0 {
		return res, nil
	}
	if s.os != nil {
		t0 := time.Now()
		r, mod, e := s.oneShotCheck(true, vars)
		s.Stats.add(r, time.Since(t0))
		if r != Sat {
			return nil, fmt.Errorf("model query: %v %s", r, e)
		}
		return mod, nil
	}
	// chunk to keep lines manageable
	for i := 0; i < len(vars); i += 200 {
		j := i + 200
		if j > len(vars) {
			j = len(vars)
		}
		var sb strings.Builder
		sb.WriteString("(get-value (")
		for _, v := range vars[i:j] {
			sb.WriteString(sym.VarSMTName(v.Name))
			sb.WriteString(" ")
		}
		sb.WriteString("))\n")
		s.send(sb.String())
		txt, err := s.readSexp()
		if err != nil {
			return nil, err
		}
		if strings.Contains(txt, "(error") {
			return nil, fmt.Errorf("get-value: %s", txt)
		}
		parseValues(txt, res)
	}
	return res, nil
}

// readSexp reads one balanced s-expression from the solver output.
func (s *Solver) readSexp() (string, error) {
	var sb strings.Builder
	depth := 0
	started := false
	inBar := false
	for {
		b, err := s.out.ReadByte()
		if err != nil {
			s.dead = true
			return sb.String(), err
		}
		sb.WriteByte(b)
		if b == '|' {
			inBar = !inBar
		}
		if inBar {
			continue
		}
		if b == '(' {
			depth++
			started = true
		} else if b == ')' {
			depth--
			if started && depth == 0 {
				// consume rest of line
				s.out.ReadString('\n')
				return sb.String(), nil
			}
		}
	}
}

func parseValues(txt string, res map[string]uint64) {
	// entries look like (|name| #x0a) or (|name| true) or (|name| (_ bv10 8))
	i := 0
	for i < len(txt) {
		k := strings.IndexByte(txt[i:], '|')
		if k < 0 {
			break
		}
		i += k + 1
		e := strings.IndexByte(txt[i:], '|')
		if e < 0 {
			break
		}
		name := txt[i : i+e]
		i += e + 1
		rest := strings.TrimLeft(txt[i:], " \n\t")
		var v uint64
		switch {
		case strings.HasPrefix(rest, "#x"):
			j := 2
			for j < len(rest) && isHex(rest[j]) {
				j++
			}
			v, _ = strconv.ParseUint(rest[2:j], 16, 64)
		case strings.HasPrefix(rest, "#b"):
			j := 2
			for j < len(rest) && (rest[j] == '0' || rest[j] == '1') {
				j++
			}
			v, _ = strconv.ParseUint(rest[2:j], 2, 64)
		case strings.HasPrefix(rest, "true"):
			v = 1
		case strings.HasPrefix(rest, "false"):
			v = 0
		case strings.HasPrefix(rest, "(_ bv"):
			j := 5
			for j < len(rest) && rest[j] >= '0' && rest[j] <= '9' {
				j++
			}
			v, _ = strconv.ParseUint(rest[5:j], 10, 64)
		}
		res[name] = v
	}
}

func isHex(b byte) bool {
	return (b >= '0' && b <= '9') || (b >= 'a' && b <= 'f') || (b >= 'A' && b <= 'F')
}

func (s *Solver) Dead() bool { return s.dead }
