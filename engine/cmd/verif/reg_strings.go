package main

func p(kv ...interface{}) map[string]int64 {
	m := map[string]int64{}
	for i := 0; i+1 < len(kv); i += 2 {
		m[kv[i].(string)] = int64(kv[i+1].(int))
	}
	return m
}

var commonAssumptions = []string{
	"go/ssa (x/tools v0.29.0) reflects the compiled program and gose implements the SSA semantics (validated per run by native replay of sampled feasible paths, and by `verif selftest`)",
	"string / regexp / filepath library calls on symbolic strings are modelled by the engine's QF_BV string library (differentially tested against the stdlib, see engine/sym/str_test.go)",
	"all symbolic strings are bounded (length bounds below) and drawn from the stated alphabet",
	"solver: z3 5.1 (z3-new) decides every query; unknown / timeout / error is reported as inconclusive, never as success",
}

func init() {
	regCheck(&Check{
		ID: "C14",
		Quick: []H{
			{Pkg: "scipipe", Fn: "VxH14a", Params: p("L", 6), MustReach: []string{"both-built"}, MustAssert: []string{"C14.injective", "C14.stable"}, Native: true},
			{Pkg: "scipipe", Fn: "VxH14len", Params: p("lo", 190, "hi", 215), MustReach: []string{"built"}, MustAssert: []string{"C14.len", "C14.segment"}, Native: true},
			{Pkg: "scipipe", Fn: "VxH14name", Params: p("L", 3), MustReach: []string{"both-built"}, MustAssert: []string{"C14.process-name-is-part-of-identity", "C14.segment"}, Native: true},
			{Pkg: "scipipe", Fn: "VxH14keys", MustReach: []string{"both-built"}, MustAssert: []string{"C14.stable-under-map-order"}},
		},
		Thorough: []H{
			{Pkg: "scipipe", Fn: "VxH14a", Params: p("L", 8), MustReach: []string{"both-built"}, MustAssert: []string{"C14.injective", "C14.stable"}, Native: true},
			{Pkg: "scipipe", Fn: "VxH14len", Params: p("lo", 0, "hi", 300), MustReach: []string{"built"}, MustAssert: []string{"C14.len", "C14.segment"}, Native: true},
			{Pkg: "scipipe", Fn: "VxH14name", Params: p("L", 4), MustReach: []string{"both-built"}, MustAssert: []string{"C14.process-name-is-part-of-identity", "C14.segment"}, Native: true},
			{Pkg: "scipipe", Fn: "VxH14keys", MustReach: []string{"both-built"}, MustAssert: []string{"C14.stable-under-map-order"}},
			{Pkg: "scipipe", Fn: "VxH14b", Params: p("L", 2), MustReach: []string{"both-built"}, MustAssert: []string{"C14.injective-all-components", "C14.stable-under-map-order"}},
		},
		Bounds: map[string]string{
			"in-path length": "<= 6 bytes quick / <= 8 thorough, alphabet [ab./_-], clean-normal (no //, no inner ./, .. only leading)",
			"param value":    "<= 2 bytes",
			"param/tag names": "fixed (H14a/b); two distinct symbolic one-byte names over [0-9A-Za-z._-] with symbolic map iteration order (H14keys)",
			"process name":   "fixed \"p\" (H14a); a^n for n in 190..215 quick / 0..300 thorough (H14len); two symbolic names of <= 3 (4) printable ASCII bytes incl. upper case, blanks and / (H14name)",
			"loop unrolling": "splitAllPaths walk-up loop forked per iteration until the solver proves the exit (segments + 1)",
		},
		Outside:     []string{"paths that are not clean-normal", "longer strings", "SHA-1 collisions (ideal hash)"},
		Assumptions: append([]string{"SHA-1 is modelled as an injective function (ideal hash: digest_x = digest_y <=> x = y)"}, commonAssumptions...),
		Stubs:       []string{"crypto/sha1.Sum (ideal hash)", "os.Stat in NewFileIP (file absent)", "randSeqLC (fresh ids)"},
	})
}

func init() {
	regCheck(&Check{
		ID: "C13",
		Quick: []H{
			{Pkg: "scipipe", Fn: "VxH13in", Params: p("L", 6, "class", 1), MustReach: []string{"task-built"}, MustAssert: []string{"C13.input-resolves"}, Native: true},
			{Pkg: "scipipe", Fn: "VxH13out", Params: p("L", 5, "class", 1), MustReach: []string{"executed"}, MustAssert: []string{"C13.moved-to-declared-path", "C13.write-confined-to-tempdir", "C13.tempdir-subdir-created"}},
			{Pkg: "scipipe", Fn: "VxH13outTpl", Params: p("L", 2), MustReach: []string{"executed"}, MustAssert: []string{"C13.moved-to-declared-path"}},
			{Pkg: "scipipe", Fn: "VxH13extra", Params: p("L", 2), MustReach: []string{"executed"}, MustAssert: []string{"C13.extra-file-keeps-relative-place"}},
			{Pkg: "scipipe", Fn: "VxH13two", Params: p("L", 3), MustReach: []string{"executed"}, MustAssert: []string{"C13.two.tempdir-subdir-created", "C13.two.moved-to-declared-path"}},
			{Pkg: "scipipe", Fn: "VxH13fifo", MustReach: []string{"ran"}, MustAssert: []string{"C13.bookkeeping-names.output-at-declared-path"}},
			{Pkg: "scipipe", Fn: "VxH13dotdot", MustReach: []string{"ran"}, MustAssert: []string{"C13.dotdot.output-at-declared-path"}},
		},
		Thorough: []H{
			{Pkg: "scipipe", Fn: "VxH13fifo", MustReach: []string{"ran"}, MustAssert: []string{"C13.bookkeeping-names.output-at-declared-path"}},
			{Pkg: "scipipe", Fn: "VxH13dotdot", MustReach: []string{"ran"}, MustAssert: []string{"C13.dotdot.output-at-declared-path"}},

			{Pkg: "scipipe", Fn: "VxH13in", Params: p("L", 8, "class", 1), MustReach: []string{"task-built"}, MustAssert: []string{"C13.input-resolves"}, Native: true},
			{Pkg: "scipipe", Fn: "VxH13out", Params: p("L", 7, "class", 1), MustReach: []string{"executed"}, MustAssert: []string{"C13.moved-to-declared-path", "C13.write-confined-to-tempdir", "C13.tempdir-subdir-created"}},
			{Pkg: "scipipe", Fn: "VxH13outTpl", Params: p("L", 3), MustReach: []string{"executed"}, MustAssert: []string{"C13.moved-to-declared-path"}},
			{Pkg: "scipipe", Fn: "VxH13extra", Params: p("L", 3), MustReach: []string{"executed"}, MustAssert: []string{"C13.extra-file-keeps-relative-place"}},
			{Pkg: "scipipe", Fn: "VxH13two", Params: p("L", 4), MustReach: []string{"executed"}, MustAssert: []string{"C13.two.tempdir-subdir-created", "C13.two.moved-to-declared-path"}},
		},
		Bounds: map[string]string{
			"output path P":  "every string over [0-9A-Za-z/._-] of <= 5 bytes quick / <= 7 thorough that names a file and has '..' only as leading segments (case split on the positions of / . _, other bytes symbolic); plus 8 templates with placeholder-like text (__parent__, __fsroot__/) around symbolic names of <= 2 / <= 3 bytes",
			"input path q":   "every such string of <= 6 bytes quick / <= 8 thorough",
			"extra file X":   "a, a/b, a__parent__b, __fsroot__/a with symbolic names of <= 2 / <= 3 bytes",
			"task":           "one command process, one output (or one input), no parameters; plus one task with two outputs in two symbolic sibling directories of <= 3 (4) bytes each (e.g. res/ and res2/), symbolic map order",
		},
		Outside: []string{"paths with '..' after a named segment (x/../y)", "longer paths", "destination directories of absolute and ../ outputs are assumed to exist", "symbolic links"},
		Assumptions: append([]string{
			"path resolution is lexical (filepath.Clean of directory + path), interpreted from the Go library source",
			"the temp directory is a single segment directly below the working directory (C14)",
			"trace-mode environment: os.Stat outcomes follow the successful scenario (no leftover temp dir, no existing output, temp file present after the command)",
		}, commonAssumptions...),
		Stubs: []string{"os.Stat/MkdirAll/Rename/RemoveAll/WriteFile, filepath.Walk (recorded with symbolic arguments)", "exec.Command(bash -c ...) (recorded; command model writes the declared file when the script is concrete)", "encoding/json (snapshot)", "time.Now (counter)"},
	})
}

func init() {
	var q, th []H
	for k := 0; k <= 10; k++ {
		q = append(q, H{Pkg: "scipipe", Fn: "VxH15cmd", Params: p("L", 4, "k", k), MustReach: []string{"task-built"}, MustAssert: []string{"C15.command-expansion", "C15.no-placeholder-left"}, Native: true})
		th = append(th, H{Pkg: "scipipe", Fn: "VxH15cmd", Params: p("L", 6, "k", k), MustReach: []string{"task-built"}, MustAssert: []string{"C15.command-expansion", "C15.no-placeholder-left"}, Native: true})
	}
	q = append(q, H{Pkg: "scipipe", Fn: "VxH15missing", MustReach: []string{"tried"}, MustAssert: []string{"C15.missing-value-stops", "C15.missing-value-no-task"}})
	q = append(q, H{Pkg: "scipipe", Fn: "VxH15out", Params: p("L", 3, "V", 2), MustReach: []string{"outpath", "default"}, MustAssert: []string{"C15.outpath-expansion", "C15.default-name"}})
	th = append(th, H{Pkg: "scipipe", Fn: "VxH15missing", MustReach: []string{"tried"}, MustAssert: []string{"C15.missing-value-stops", "C15.missing-value-no-task"}})
	th = append(th, H{Pkg: "scipipe", Fn: "VxH15out", Params: p("L", 4, "V", 3), MustReach: []string{"outpath", "default"}, MustAssert: []string{"C15.outpath-expansion", "C15.default-name"}})
	// modifier chains on a joined (sub-stream) placeholder, before and after the join directive
	q = append(q, H{Pkg: "scipipe", Fn: "VxH18join", Params: p("L", 3, "n", 1, "nsep", 5), MustReach: []string{"task-built"}, MustAssert: []string{"C18.joined-in-order"}})
	th = append(th, H{Pkg: "scipipe", Fn: "VxH18join", Params: p("L", 3, "n", 2, "nsep", 3), MustReach: []string{"task-built"}, MustAssert: []string{"C18.joined-in-order"}})
	regCheck(&Check{
		ID: "C15", Quick: q, Thorough: th,
		Bounds: map[string]string{
			"patterns":      "11 command patterns and 5 output-path patterns + the default name of two default-named out-ports (placeholder kinds i/o/p/t, modifier chains of basename, dirname, %suffix, s/a/b/, repeated placeholders), a joined placeholder with a %suffix modifier before / after join:SEP - enumerated, not symbolic",
			"input path":    "every valid file path of <= 4 bytes quick / <= 6 thorough over [0-9A-Za-z/._-] (case split on length and on the positions of / and . where modifiers apply)",
			"param and tag": "every non-empty value of <= 3 bytes (quick out-path harness: <= 2) of printable ASCII without { } | and whitespace",
			"map order":     "iteration order of every `range` over a map is a symbolic choice (out-path / default-name harness)",
		},
		Outside: []string{"patterns outside the enumerated set (regex matching of symbolic patterns is outside the encodable fragment)", "values containing { } | or whitespace", "port discovery from the pattern is exercised only on the concrete patterns"},
		Assumptions: append([]string{
			"the reference follows docs/writing_workflows.md; where it is silent (suffix equal to the whole value; first vs every occurrence for s/a/b/) both outcomes are accepted",
		}, commonAssumptions...),
		Stubs: []string{"os.Stat in NewFileIP (absent)", "os.Exit (ends the run, reported as kind exit)"},
	})
}

func init() {
	var q, th []H
	for n := 0; n <= 3; n++ {
		L := 3
		if n == 3 {
			L = 2
		}
		j5 := H{Pkg: "scipipe", Fn: "VxH18join", Params: p("L", L, "n", n, "nsep", 5), MustReach: []string{"task-built"}, MustAssert: []string{"C18.joined-in-order", "C18.all-members-collected", "C18.substream-drained"}}
		q = append(q, j5)
		th = append(th, j5) // the multi-character separators at the quick bound; the deeper bound below uses the one-character ones
		th = append(th, H{Pkg: "scipipe", Fn: "VxH18join", Params: p("L", L+1, "n", n, "nsep", 3), MustReach: []string{"task-built"}, MustAssert: []string{"C18.joined-in-order", "C18.all-members-collected", "C18.substream-drained"}})
		q = append(q, H{Pkg: "components", Fn: "VxH18sts", Params: p("n", n, "preempt", 3), MustReach: []string{"ran"}, MustAssert: []string{"C18.sts-one-carrier", "C18.sts-all-members"}})
		th = append(th, H{Pkg: "components", Fn: "VxH18sts", Params: p("n", n, "preempt", 6), MustReach: []string{"ran"}, MustAssert: []string{"C18.sts-one-carrier", "C18.sts-all-members"}})
	}
	for _, ab := range [][2]int{{1, 1}, {2, 1}, {0, 2}} {
		q = append(q, H{Pkg: "scipipe", Fn: "VxH18two", Params: p("na", ab[0], "nb", ab[1]), MustReach: []string{"task-built"}, MustAssert: []string{"C18.two.each-port-own-substream"}})
		th = append(th, H{Pkg: "scipipe", Fn: "VxH18two", Params: p("na", ab[0], "nb", ab[1]), MustReach: []string{"task-built"}, MustAssert: []string{"C18.two.each-port-own-substream"}})
	}
	th = append(th, H{Pkg: "scipipe", Fn: "VxH18two", Params: p("na", 2, "nb", 2), MustReach: []string{"task-built"}, MustAssert: []string{"C18.two.each-port-own-substream"}})
	regCheck(&Check{
		ID: "C18", Quick: q, Thorough: th,
		Bounds: map[string]string{
			"sub-stream length": "0..3 members, channel buffer 1 (so the stream is longer than the buffer)",
			"member paths":      "every valid path of <= 3 bytes (<= 2 for 3 members) quick / one byte more thorough, relative and absolute",
			"separator":         "one-character: space, comma, colon (both tiers, all path bounds); multi-character: \", \" and \" -I \" at the quick path bound (both tiers); with and without a %suffix modifier and with s/a/bb/ after join",
			"two joined ports":  "sub-streams of (1,1), (2,1), (0,2) members, symbolic map iteration order in NewTask",
			"StreamToSubStream": "FileSource -> StreamToSubStream -> consumer with 0..3 files, up to 3 (quick) / 6 (thorough) pre-emptions chosen by the solver among the runnable goroutines",
		},
		Outside:     []string{"longer sub-streams", "audit Upstream of joined members is checked with C10"},
		Assumptions: commonAssumptions,
		Stubs:       []string{"os.Stat in NewFileIP (absent)", "ioutil.TempFile (model file system)", "goroutines: cooperative scheduler, run-to-block plus bounded pre-emption"},
	})
}

func init() {
	var q []H
	for sh := 0; sh <= 4; sh++ {
		q = append(q, H{Pkg: "cmd_scipipe", Fn: "VxH20", Params: p("shape", sh), MustReach: []string{"converted"}, MustAssert: []string{"C20.every-record-listed-once", "C20.ordered-by-start-time"}, Native: true})
	}
	regCheck(&Check{
		ID: "C20", Quick: q, Thorough: q,
		Bounds: map[string]string{
			"audit trees": "5 shapes with 3..6 records: chain, fan-in of two sources with the zero start time, diamond with a shared ancestor, fan-in of three with possibly equal start times, resumed run where one path key carries two different task records",
			"start times": "symbolic instants in 1..4 ns (so equalities and every relative order occur), zero time for sources",
			"map order":   "iteration order of the record maps in extractAuditInfosByID / sortAuditInfosByStartTime is a symbolic choice",
		},
		Outside: []string{
			"text/template rendering of the HTML / TeX / Bash reports and execution of the generated script (reflection-driven library code; only the record list handed to the templates is checked)",
			"trees with more than 6 records",
		},
		Assumptions: append([]string{"sort.Slice is modelled as an insertion sort calling the real less closure; the property checked (permutation + sortedness) does not depend on the algorithm"}, commonAssumptions...),
		Stubs:       []string{"sort.Slice", "time.Time (instant only)", "randSeqLC"},
	})
}
