package main

func p(kv ...interface{}) map[string]int64 {
	m := map[string]int64{}
	for i := 0; i+1 < len(kv); i += 2 {
		m[kv[i].(string)] = int64(kv[i+1].(int))
	}
	return m
}

var commonAssumptions = []string{
	"go/ssa (x/tools v0.29.0) reflects the compiled program and gose implements the SSA semantics (validated per run by native replay of sampled feasible paths, and by `verif selftest`)",
	"string / regexp / filepath library calls on symbolic strings are modelled by the engine's QF_BV string library (differentially tested against the stdlib, see engine/sym/str_test.go)",
	"all symbolic strings are bounded (length bounds below) and drawn from the stated alphabet",
	"solver: z3 5.1 (z3-new) decides every query; unknown / timeout / error is reported as inconclusive, never as success",
}

func init() {
	regCheck(&Check{
		ID: "C14",
		Quick: []H{
			{Pkg: "scipipe", Fn: "VxH14a", Params: p("L", 6), MustReach: []string{"both-built"}, MustAssert: []string{"C14.injective", "C14.stable"}, Native: true},
			{Pkg: "scipipe", Fn: "VxH14len", Params: p("lo", 190, "hi", 215), MustReach: []string{"built"}, MustAssert: []string{"C14.len", "C14.segment"}, Native: true},
		},
		Thorough: []H{
			{Pkg: "scipipe", Fn: "VxH14a", Params: p("L", 8), MustReach: []string{"both-built"}, MustAssert: []string{"C14.injective", "C14.stable"}, Native: true},
			{Pkg: "scipipe", Fn: "VxH14len", Params: p("lo", 0, "hi", 300), MustReach: []string{"built"}, MustAssert: []string{"C14.len", "C14.segment"}, Native: true},
		},
		Bounds: map[string]string{
			"in-path length": "<= 6 bytes quick / <= 8 thorough, alphabet [ab./_-], clean-normal (no //, no inner ./, .. only leading)",
			"param value":    "<= 2 bytes",
			"process name":   "fixed \"p\" (H14a); a^n for n in 190..215 quick / 0..300 thorough (H14len)",
			"loop unrolling": "splitAllPaths walk-up loop forked per iteration until the solver proves the exit (segments + 1)",
		},
		Outside:     []string{"paths that are not clean-normal", "longer strings", "SHA-1 collisions (ideal hash)"},
		Assumptions: append([]string{"SHA-1 is modelled as an injective function (ideal hash: digest_x = digest_y <=> x = y)"}, commonAssumptions...),
		Stubs:       []string{"crypto/sha1.Sum (ideal hash)", "os.Stat in NewFileIP (file absent)", "randSeqLC (fresh ids)"},
	})
}

func init() {
	regCheck(&Check{
		ID: "C13",
		Quick: []H{
			{Pkg: "scipipe", Fn: "VxH13in", Params: p("L", 6, "class", 1), MustReach: []string{"task-built"}, MustAssert: []string{"C13.input-resolves"}, Native: true},
			{Pkg: "scipipe", Fn: "VxH13out", Params: p("L", 5, "class", 1), MustReach: []string{"executed"}, MustAssert: []string{"C13.moved-to-declared-path", "C13.write-confined-to-tempdir", "C13.tempdir-subdir-created"}},
			{Pkg: "scipipe", Fn: "VxH13outTpl", Params: p("L", 2), MustReach: []string{"executed"}, MustAssert: []string{"C13.moved-to-declared-path"}},
			{Pkg: "scipipe", Fn: "VxH13extra", Params: p("L", 2), MustReach: []string{"executed"}, MustAssert: []string{"C13.extra-file-keeps-relative-place"}},
		},
		Thorough: []H{
			{Pkg: "scipipe", Fn: "VxH13in", Params: p("L", 8, "class", 1), MustReach: []string{"task-built"}, MustAssert: []string{"C13.input-resolves"}, Native: true},
			{Pkg: "scipipe", Fn: "VxH13out", Params: p("L", 7, "class", 1), MustReach: []string{"executed"}, MustAssert: []string{"C13.moved-to-declared-path", "C13.write-confined-to-tempdir", "C13.tempdir-subdir-created"}},
			{Pkg: "scipipe", Fn: "VxH13outTpl", Params: p("L", 3), MustReach: []string{"executed"}, MustAssert: []string{"C13.moved-to-declared-path"}},
			{Pkg: "scipipe", Fn: "VxH13extra", Params: p("L", 3), MustReach: []string{"executed"}, MustAssert: []string{"C13.extra-file-keeps-relative-place"}},
		},
		Bounds: map[string]string{
			"output path P":  "every string over [0-9A-Za-z/._-] of <= 5 bytes quick / <= 7 thorough that names a file and has '..' only as leading segments (case split on the positions of / . _, other bytes symbolic); plus 8 templates with placeholder-like text (__parent__, __fsroot__/) around symbolic names of <= 2 / <= 3 bytes",
			"input path q":   "every such string of <= 6 bytes quick / <= 8 thorough",
			"extra file X":   "a, a/b, a__parent__b, __fsroot__/a with symbolic names of <= 2 / <= 3 bytes",
			"task":           "one command process, one output (or one input), no parameters",
		},
		Outside: []string{"paths with '..' after a named segment (x/../y)", "longer paths", "destination directories of absolute and ../ outputs are assumed to exist", "symbolic links"},
		Assumptions: append([]string{
			"path resolution is lexical (filepath.Clean of directory + path), interpreted from the Go library source",
			"the temp directory is a single segment directly below the working directory (C14)",
			"trace-mode environment: os.Stat outcomes follow the successful scenario (no leftover temp dir, no existing output, temp file present after the command)",
		}, commonAssumptions...),
		Stubs: []string{"os.Stat/MkdirAll/Rename/RemoveAll/WriteFile, filepath.Walk (recorded with symbolic arguments)", "exec.Command(bash -c ...) (recorded; command model writes the declared file when the script is concrete)", "encoding/json (snapshot)", "time.Now (counter)"},
	})
}

func init() {
	var q, th []H
	for k := 0; k <= 10; k++ {
		q = append(q, H{Pkg: "scipipe", Fn: "VxH15cmd", Params: p("L", 4, "k", k), MustReach: []string{"task-built"}, MustAssert: []string{"C15.command-expansion", "C15.no-placeholder-left"}, Native: true})
		th = append(th, H{Pkg: "scipipe", Fn: "VxH15cmd", Params: p("L", 6, "k", k), MustReach: []string{"task-built"}, MustAssert: []string{"C15.command-expansion", "C15.no-placeholder-left"}, Native: true})
	}
	q = append(q, H{Pkg: "scipipe", Fn: "VxH15missing", MustReach: []string{"tried"}, MustAssert: []string{"C15.missing-value-stops", "C15.missing-value-no-task"}})
	q = append(q, H{Pkg: "scipipe", Fn: "VxH15out", Params: p("L", 3, "V", 2), MustReach: []string{"outpath", "default"}, MustAssert: []string{"C15.outpath-expansion", "C15.default-name"}})
	th = append(th, H{Pkg: "scipipe", Fn: "VxH15missing", MustReach: []string{"tried"}, MustAssert: []string{"C15.missing-value-stops", "C15.missing-value-no-task"}})
	th = append(th, H{Pkg: "scipipe", Fn: "VxH15out", Params: p("L", 4, "V", 3), MustReach: []string{"outpath", "default"}, MustAssert: []string{"C15.outpath-expansion", "C15.default-name"}})
	regCheck(&Check{
		ID: "C15", Quick: q, Thorough: th,
		Bounds: map[string]string{
			"patterns":      "11 command patterns and 5 output-path patterns + the default name (placeholder kinds i/o/p/t, modifier chains of basename, dirname, %suffix, s/a/b/, repeated placeholders) - enumerated, not symbolic",
			"input path":    "every valid file path of <= 4 bytes quick / <= 6 thorough over [0-9A-Za-z/._-] (case split on length and on the positions of / and . where modifiers apply)",
			"param and tag": "every non-empty value of <= 3 bytes (quick out-path harness: <= 2) of printable ASCII without { } | and whitespace",
			"map order":     "iteration order of every `range` over a map is a symbolic choice (out-path / default-name harness)",
		},
		Outside: []string{"patterns outside the enumerated set (regex matching of symbolic patterns is outside the encodable fragment)", "values containing { } | or whitespace", "port discovery from the pattern is exercised only on the concrete patterns"},
		Assumptions: append([]string{
			"the reference follows docs/writing_workflows.md; where it is silent (suffix equal to the whole value; first vs every occurrence for s/a/b/) both outcomes are accepted",
		}, commonAssumptions...),
		Stubs: []string{"os.Stat in NewFileIP (absent)", "os.Exit (ends the run, reported as kind exit)"},
	})
}
