package main

import (
	"fmt"
	"os"
	"sort"
	"strings"
	"time"

	"golang.org/x/tools/go/ssa"

	"verif/engine/gose"
	"verif/engine/smt"
	"verif/engine/sym"
)

// Thread-trace composition ("tc") for the slot semaphore (C06, C07).
//
// 1. For every task kind (normal / skipped because its output exists / streaming output)
//    and every core count c in 1..M the real Task.Execute is executed symbolically on its
//    own with the workflow's slot channel and slot mutex in trace mode: the sequence of
//    operations the task performs on them (L lock, U unlock, S deposit, R remove, TR/TS
//    non-blocking variants, B/E command begins/ends, D done) is recorded.
// 2. N such sequences are composed into a step-indexed transition system over bit-vectors:
//    per thread a program counter, kind and core count (symbolic), globally the number of
//    tokens and the lock holder, per step a solver variable sched[k] choosing the thread
//    that moves. Go's semantics of buffered channels and mutexes are the enabledness
//    conditions. The solver decides, for ALL schedules, core counts, kinds and M at once:
//    overuse, deadlock, work conservation; witnesses guard against vacuity.

const (
	opEND = iota
	opL
	opU
	opS
	opR
	opB
	opE
	opD
	opTR
	opTS
)

var opNames = []string{"END", "L", "U", "S", "R", "B", "E", "D", "TR", "TS"}

func opCode(ev string) (int, error) {
	switch {
	case strings.HasPrefix(ev, "L:"):
		return opL, nil
	case strings.HasPrefix(ev, "U:"):
		return opU, nil
	}
	for i, n := range opNames {
		if n == ev {
			return i, nil
		}
	}
	return 0, fmt.Errorf("unknown trace event %q", ev)
}

type tcSystem struct {
	c       *sym.Ctx
	N, M, K int
	PW      int // pc width
	prog    map[[2]int][]int // (kind, cores) -> op codes
	kinds   []int
	kind    []*sym.Term // per thread (BV2)
	cores   []*sym.Term // per thread (BV4)
	max     *sym.Term   // BV4
	sched   []*sym.Term // per step (BV3)
	// state per step
	pc     [][]*sym.Term
	run    [][]*sym.Term // Bool
	began  [][]*sym.Term // Bool: thread has executed its B (or has no B at all)
	tok    []*sym.Term
	holder []*sym.Term
	assume []*sym.Term
	anyEn  []*sym.Term
	en     [][]*sym.Term
	opAt   [][]*sym.Term
}

// tcFixedKinds, when set, pins the kind of thread i (used for a cheap three-thread query).
var tcFixedKinds []int

// tcPrefilled: the slot channel is full when the tasks start (it counts free slots: acquire =
// receive, release = send) instead of empty (it counts slots in use: acquire = send).
var tcPrefilled bool

func buildTC(N, M int, prog map[[2]int][]int, kinds []int, rendezvous bool) *tcSystem {
	c := sym.NewCtx()
	t := &tcSystem{c: c, N: N, M: M, prog: prog, kinds: kinds}
	lmax := 0
	for _, l := range prog {
		if len(l) > lmax {
			lmax = len(l)
		}
	}
	t.K = N * lmax
	t.PW = 6
	bv := func(w int, v int) *sym.Term { return c.BV(w, uint64(v)) }
	t.max = c.Var("max", 4)
	t.assume = append(t.assume, c.And(c.Ule(bv(4, 1), t.max), c.Ule(t.max, bv(4, M))))
	for i := 0; i < N; i++ {
		k := c.Var(fmt.Sprintf("kind%d", i), 2)
		co := c.Var(fmt.Sprintf("cores%d", i), 4)
		t.kind = append(t.kind, k)
		t.cores = append(t.cores, co)
		okKind := c.F
		for _, kk := range kinds {
			okKind = c.Or(okKind, c.Eq(k, bv(2, kk)))
		}
		if i < len(tcFixedKinds) {
			okKind = c.Eq(k, bv(2, tcFixedKinds[i]))
		}
		t.assume = append(t.assume, okKind, c.Ule(bv(4, 1), co), c.Ule(co, t.max))
	}
	// op of thread i at pc p (term-level table lookup)
	lookup := func(i int, pc *sym.Term) *sym.Term {
		res := bv(4, opEND)
		for key, list := range prog {
			sel := c.And(c.Eq(t.kind[i], bv(2, key[0])), c.Eq(t.cores[i], bv(4, key[1])))
			inner := bv(4, opEND)
			for p := len(list) - 1; p >= 0; p-- {
				inner = c.Ite(c.Eq(pc, bv(t.PW, p)), bv(4, list[p]), inner)
			}
			res = c.Ite(sel, inner, res)
		}
		return res
	}
	// does the program of thread i contain a B at all?
	hasB := func(i int) *sym.Term {
		res := c.F
		for key, list := range prog {
			has := false
			for _, o := range list {
				if o == opB {
					has = true
				}
			}
			if has {
				res = c.Or(res, c.And(c.Eq(t.kind[i], bv(2, key[0])), c.Eq(t.cores[i], bv(4, key[1]))))
			}
		}
		return res
	}
	// initial state
	pc0 := make([]*sym.Term, N)
	run0 := make([]*sym.Term, N)
	beg0 := make([]*sym.Term, N)
	for i := 0; i < N; i++ {
		pc0[i] = bv(t.PW, 0)
		run0[i] = c.F
		beg0[i] = c.Not(hasB(i))
	}
	t.pc = append(t.pc, pc0)
	t.run = append(t.run, run0)
	t.began = append(t.began, beg0)
	if tcPrefilled {
		t.tok = append(t.tok, t.max)
	} else {
		t.tok = append(t.tok, bv(4, 0))
	}
	t.holder = append(t.holder, bv(3, 0))
	for k := 0; k < t.K; k++ {
		s := c.Var(fmt.Sprintf("sched%d", k), 3)
		t.sched = append(t.sched, s)
		t.assume = append(t.assume, c.Ult(s, bv(3, N)))
		ops := make([]*sym.Term, N)
		en := make([]*sym.Term, N)
		any := c.F
		allBegan := c.T
		for i := 0; i < N; i++ {
			allBegan = c.And(allBegan, t.began[k][i])
		}
		for i := 0; i < N; i++ {
			op := lookup(i, t.pc[k][i])
			ops[i] = op
			is := func(o int) *sym.Term { return c.Eq(op, bv(4, o)) }
			e := c.Or(is(opU), is(opB), is(opD), is(opTR), is(opTS))
			e = c.Or(e, c.And(is(opL), c.Eq(t.holder[k], bv(3, 0))))
			e = c.Or(e, c.And(is(opS), c.Ult(t.tok[k], t.max)))
			e = c.Or(e, c.And(is(opR), c.Ult(bv(4, 0), t.tok[k])))
			if rendezvous {
				e = c.Or(e, c.And(is(opE), allBegan))
			} else {
				e = c.Or(e, is(opE))
			}
			en[i] = e
			any = c.Or(any, e)
		}
		t.opAt = append(t.opAt, ops)
		t.en = append(t.en, en)
		t.anyEn = append(t.anyEn, any)
		// the scheduler picks an enabled thread whenever there is one
		chosenEn := c.F
		for i := 0; i < N; i++ {
			chosenEn = c.Or(chosenEn, c.And(c.Eq(s, bv(3, i)), en[i]))
		}
		t.assume = append(t.assume, c.Implies(any, chosenEn))
		// next state
		npc := make([]*sym.Term, N)
		nrun := make([]*sym.Term, N)
		nbeg := make([]*sym.Term, N)
		ntok := t.tok[k]
		nhold := t.holder[k]
		for i := 0; i < N; i++ {
			moves := c.And(c.Eq(s, bv(3, i)), en[i])
			is := func(o int) *sym.Term { return c.Eq(ops[i], bv(4, o)) }
			npc[i] = c.Ite(moves, c.Add(t.pc[k][i], bv(t.PW, 1)), t.pc[k][i])
			nrun[i] = c.Ite(c.And(moves, is(opB)), c.T, c.Ite(c.And(moves, is(opE)), c.F, t.run[k][i]))
			nbeg[i] = c.Or(t.began[k][i], c.And(moves, is(opB)))
			ntok = c.Ite(c.And(moves, is(opS)), c.Add(ntok, bv(4, 1)), ntok)
			ntok = c.Ite(c.And(moves, is(opR)), c.Sub(ntok, bv(4, 1)), ntok)
			// non-blocking forms succeed when possible and are skipped otherwise
			ntok = c.Ite(c.And(moves, is(opTR), c.Ult(bv(4, 0), t.tok[k])), c.Sub(ntok, bv(4, 1)), ntok)
			ntok = c.Ite(c.And(moves, is(opTS), c.Ult(t.tok[k], t.max)), c.Add(ntok, bv(4, 1)), ntok)
			nhold = c.Ite(c.And(moves, is(opL)), bv(3, i+1), nhold)
			nhold = c.Ite(c.And(moves, is(opU)), bv(3, 0), nhold)
		}
		t.pc = append(t.pc, npc)
		t.run = append(t.run, nrun)
		t.began = append(t.began, nbeg)
		t.tok = append(t.tok, ntok)
		t.holder = append(t.holder, nhold)
	}
	return t
}

func (t *tcSystem) finished(k, i int) *sym.Term {
	// a thread is finished when its op at the current pc is END (lookup beyond the list)
	c := t.c
	if k < t.K {
		return c.Eq(t.opAt[k][i], c.BV(4, opEND))
	}
	// final state: recompute lookup lazily via "no op left" = pc reached list length
	res := c.F
	for key, list := range t.prog {
		sel := c.And(c.Eq(t.kind[i], c.BV(2, uint64(key[0]))), c.Eq(t.cores[i], c.BV(4, uint64(key[1]))))
		res = c.Or(res, c.And(sel, c.Eq(t.pc[k][i], c.BV(t.PW, uint64(len(list))))))
	}
	return res
}

func (t *tcSystem) load(k int) *sym.Term {
	c := t.c
	sum := c.BV(6, 0)
	for i := 0; i < t.N; i++ {
		sum = c.Add(sum, c.Ite(t.run[k][i], c.Zext(t.cores[i], 6), c.BV(6, 0)))
	}
	return sum
}

type tcQuery struct {
	name   string
	goal   *sym.Term
	expect smt.Result
	extra  []*sym.Term
}

type tcResult struct {
	Query    string  `json:"query"`
	N        int     `json:"threads"`
	M        int     `json:"max_slots_upto"`
	Steps    int     `json:"steps"`
	Expect   string  `json:"expected"`
	Answer   string  `json:"answer"`
	MS       float64 `json:"ms"`
	Schedule string  `json:"schedule,omitempty"`
}

func (t *tcSystem) solve(q tcQuery, solverKind string, timeout time.Duration, st *smt.Stats) (smt.Result, string) {
	s, err := smt.Start(solverKind, timeout, st)
	if err != nil {
		return smt.Unknown, err.Error()
	}
	defer s.Close()
	for _, a := range t.assume {
		s.Assert(a)
	}
	for _, a := range q.extra {
		s.Assert(a)
	}
	s.Assert(q.goal)
	r := s.Check()
	desc := ""
	if r == smt.Sat {
		mod, err := s.Model(t.c.Vars)
		if err == nil {
			memo := map[*sym.Term]uint64{}
			var sb strings.Builder
			fmt.Fprintf(&sb, "max=%d", sym.Eval(t.max, mod, memo))
			for i := 0; i < t.N; i++ {
				fmt.Fprintf(&sb, " t%d(kind=%d,cores=%d)", i, sym.Eval(t.kind[i], mod, memo), sym.Eval(t.cores[i], mod, memo))
			}
			sb.WriteString(" steps:")
			for k := 0; k < t.K; k++ {
				i := int(sym.Eval(t.sched[k], mod, memo))
				if i >= t.N {
					continue
				}
				if sym.Eval(t.en[k][i], mod, memo) == 0 {
					if sym.Eval(t.anyEn[k], mod, memo) == 0 {
						allFin := true
						for j := 0; j < t.N; j++ {
							if sym.Eval(t.opAt[k][j], mod, memo) != opEND {
								allFin = false
							}
						}
						if !allFin {
							fmt.Fprintf(&sb, " [STUCK at step %d: tokens=%d lock holder=%d]", k, sym.Eval(t.tok[k], mod, memo), sym.Eval(t.holder[k], mod, memo))
						}
						break
					}
					continue
				}
				fmt.Fprintf(&sb, " t%d:%s", i, opNames[sym.Eval(t.opAt[k][i], mod, memo)])
			}
			desc = sb.String()
		}
	}
	return r, desc
}

// extractThread runs the VxTcThread harness for one (kind, cores) and returns the ops.
func extractThread(prog *gose.Program, fn *ssa.Function, kind, cores, max int, st *smt.Stats) ([]int, []string, *gose.PathResult, error) {
	s, err := smt.Start("z3-new", 300*time.Second, st)
	if err != nil {
		return nil, nil, nil, err
	}
	defer s.Close()
	res := prog.RunPath(fn, nil, s, gose.ExploreOpts{MaxSteps: 5_000_000, Params: map[string]int64{"kind": int64(kind), "cores": int64(cores), "max": int64(max)}}, nil, st, false)
	if res.Status != "done" {
		return nil, nil, res, fmt.Errorf("thread extraction (kind %d, cores %d): %s %s", kind, cores, res.Status, res.Msg)
	}
	if len(res.Decisions) != 0 || len(res.Pending) != 0 {
		return nil, nil, res, fmt.Errorf("thread extraction (kind %d, cores %d): control flow depends on symbolic data", kind, cores)
	}
	// with every mutex traced: keep the locks whose critical section contains an operation
	// on the traced channel, drop the others (per-object locks taken around bookkeeping)
	{
		var tr []string
		for _, ev := range res.SyncTrace {
			if strings.HasPrefix(ev, "I:") {
				n0 := 0
				fmt.Sscanf(ev, "I:%d", &n0)
				if n0 != 0 && n0 != max {
					return nil, nil, res, fmt.Errorf("thread extraction: the slot channel holds %d of %d tokens when the task starts (neither empty nor full)", n0, max)
				}
				tcPrefilled = n0 == max && max > 0
				continue
			}
			tr = append(tr, ev)
		}
		res.SyncTrace = tr
	}
	res.SyncTrace = filterLocks(res.SyncTrace)
	var ops []int
	for _, ev := range res.SyncTrace {
		o, err := opCode(ev)
		if err != nil {
			return nil, nil, res, err
		}
		ops = append(ops, o)
	}
	return ops, res.SyncTrace, res, nil
}

// runTC performs the tc part of C06 / C07. which: "C06" or "C07".
func (cr *checkRun) runTC(which string, N, M int) {
	t0 := time.Now()
	sp := cr.prog.Pkgs[pkgPaths["scipipe"]]
	fn := sp.Func("VxTcThread")
	if fn == nil {
		cr.problems = append(cr.problems, "no harness VxTcThread")
		return
	}
	var st smt.Stats
	prog := map[[2]int][]int{}
	kinds := []int{0, 1, 2}
	if which == "C07" && N >= 3 {
		// three threads of three kinds exceed the solver's reach for the deadlock query
		// (unknown after 20 min); the third thread dimension is explored with normal and
		// skipped tasks only (a streaming task performs the same slot operations as a
		// normal one, which the N=2 composition with all kinds checks)
		kinds = []int{0, 1}
	}
	if k := os.Getenv("VERIF_TC_KINDS"); k != "" {
		kinds = nil
		for _, ch := range k {
			kinds = append(kinds, int(ch-'0'))
		}
	}
	var samples []map[string]interface{}
	for _, kind := range kinds {
		for c := 1; c <= M; c++ {
			ops, evs, res, err := extractThread(cr.prog, fn, kind, c, M, &st)
			if res != nil {
				for _, f := range res.Funcs {
					cr.funcs[f] = true
				}
			}
			if err != nil {
				cr.problems = append(cr.problems, err.Error())
				return
			}
			prog[[2]int{kind, c}] = ops
			if c == 2 || M == 1 {
				samples = append(samples, map[string]interface{}{"thread_kind": []string{"normal", "skipped", "streaming"}[kind], "cores": c, "events": strings.Join(evs, " ")})
			}
		}
	}
	rep := harnessReport{Harness: fmt.Sprintf("tc(%s,N=%d,M<=%d)", which, N, M), Reached: map[string]int{}, Discharged: map[string]int{}, Concrete: map[string]int{}}
	rep.Samples = samples
	var results []tcResult
	run := func(name string, rendezvous bool, expect smt.Result, mk func(t *tcSystem) (goal *sym.Term, extra []*sym.Term)) {
		t := buildTC(N, M, prog, kinds, rendezvous)
		goal, extra := mk(t)
		q0 := time.Now()
		sk := cr.solver
		if v := os.Getenv("VERIF_TC_SOLVER"); v != "" {
			sk = v
		}
		if os.Getenv("VERIF_TC_ONLY") != "" && os.Getenv("VERIF_TC_ONLY") != name {
			return
		}
		r, desc := t.solve(tcQuery{name: name, goal: goal, expect: expect, extra: extra}, sk, 20*time.Minute, &st)
		ms := float64(time.Since(q0).Microseconds()) / 1000
		results = append(results, tcResult{Query: name, N: N, M: M, Steps: t.K, Expect: expect.String(), Answer: r.String(), MS: ms, Schedule: desc})
		rep.Steps += int64(t.K)
		switch {
		case r == smt.Unknown:
			cr.problems = append(cr.problems, fmt.Sprintf("tc %s: solver unknown", name))
		case r == expect && expect == smt.Unsat:
			rep.Discharged[which+"."+name]++
		case r == expect && expect == smt.Sat:
			rep.Reached[name]++
		case expect == smt.Unsat:
			// counterexample schedule
			cr.nviol++
			rep.Violations++
			path := cr.keepText(fmt.Sprintf("%s_tc_%s.txt", which, name), fmt.Sprintf("property %s, query %s violated\n%s\n\nthread programs (kind,cores) -> ops:\n%s", which, name, desc, progText(prog)))
			cr.violLines = append(cr.violLines, fmt.Sprintf("VIOLATION property=%s replay=%s", which, path))
		default:
			cr.problems = append(cr.problems, fmt.Sprintf("tc witness %s is not satisfiable: the model of the threads is vacuous (%d threads)", name, N))
		}
		if cr.cross != "" && r == smt.Unsat {
			r2, _ := t.solve(tcQuery{name: name, goal: goal, extra: extra}, cr.cross, 20*time.Minute, &st)
			if r2 != smt.Unsat {
				cr.problems = append(cr.problems, fmt.Sprintf("tc %s: %s says unsat, %s says %v", name, cr.solver, cr.cross, r2))
			}
		}
	}
	or := func(c *sym.Ctx, ts []*sym.Term) *sym.Term {
		r := c.F
		for _, x := range ts {
			r = c.Or(r, x)
		}
		return r
	}
	if which == "C06" && N == 2 {
		// one extra composition of three threads with pinned kinds: a running task, a
		// skipped task and a third task (a skipped task must not disturb the accounting)
		tcFixedKinds = []int{0, 1, 0}
		N = 3
		run("overuse-normal-skipped-normal", false, smt.Unsat, func(t *tcSystem) (*sym.Term, []*sym.Term) {
			var bad []*sym.Term
			for k := 0; k <= t.K; k++ {
				bad = append(bad, t.c.Ult(t.c.Zext(t.max, 6), t.load(k)))
			}
			return or(t.c, bad), nil
		})
		tcFixedKinds = nil
		N = 2
	}
	if which == "C06" {
		run("overuse", false, smt.Unsat, func(t *tcSystem) (*sym.Term, []*sym.Term) {
			var bad []*sym.Term
			for k := 0; k <= t.K; k++ {
				bad = append(bad, t.c.Ult(t.c.Zext(t.max, 6), t.load(k)))
			}
			return or(t.c, bad), nil
		})
		run("witness-two-commands-at-once", false, smt.Sat, func(t *tcSystem) (*sym.Term, []*sym.Term) {
			var w []*sym.Term
			for k := 0; k <= t.K; k++ {
				w = append(w, t.c.And(t.run[k][0], t.run[k][1]))
			}
			return or(t.c, w), nil
		})
	} else {
		run("deadlock", false, smt.Unsat, func(t *tcSystem) (*sym.Term, []*sym.Term) {
			var bad []*sym.Term
			for k := 0; k < t.K; k++ {
				allFin := t.c.T
				for i := 0; i < t.N; i++ {
					allFin = t.c.And(allFin, t.finished(k, i))
				}
				bad = append(bad, t.c.And(t.c.Not(t.anyEn[k]), t.c.Not(allFin)))
			}
			return or(t.c, bad), nil
		})
		run("work-conservation", true, smt.Unsat, func(t *tcSystem) (*sym.Term, []*sym.Term) {
			// commands that wait for each other (E only once every thread has begun): if
			// the tasks fit into the slots together, nobody may get stuck
			c := t.c
			sum := c.BV(6, 0)
			for i := 0; i < t.N; i++ {
				hasCmd := c.Not(t.began[0][i]) // threads that run a command
				sum = c.Add(sum, c.Ite(hasCmd, c.Zext(t.cores[i], 6), c.BV(6, 0)))
			}
			fits := c.Ule(sum, c.Zext(t.max, 6))
			var bad []*sym.Term
			for k := 0; k < t.K; k++ {
				allFin := c.T
				for i := 0; i < t.N; i++ {
					allFin = c.And(allFin, t.finished(k, i))
				}
				bad = append(bad, c.And(c.Not(t.anyEn[k]), c.Not(allFin)))
			}
			return or(c, bad), []*sym.Term{fits}
		})
		run("witness-all-finish", false, smt.Sat, func(t *tcSystem) (*sym.Term, []*sym.Term) {
			allFin := t.c.T
			for i := 0; i < t.N; i++ {
				allFin = t.c.And(allFin, t.finished(t.K, i))
			}
			return allFin, nil
		})
		run("witness-all-commands-at-once", true, smt.Sat, func(t *tcSystem) (*sym.Term, []*sym.Term) {
			var w []*sym.Term
			for k := 0; k <= t.K; k++ {
				all := t.c.T
				for i := 0; i < t.N; i++ {
					all = t.c.And(all, t.run[k][i])
				}
				w = append(w, all)
			}
			return or(t.c, w), nil
		})
	}
	// unbounded-steps variant, also for more threads than the composition can unroll
	indN := cr.check.TCInductN
	if cr.tier == "thorough" && cr.check.TCInductNThorough > 0 {
		indN = cr.check.TCInductNThorough
	}
	for n := 2; n <= indN; n++ {
		cr.runTCInduction(which, n, M, prog, []int{0, 1, 2}, &rep, &st)
	}
	rep.Queries = st.Queries
	rep.Sat, rep.Unsat, rep.Unknown = st.SatN, st.UnsatN, st.UnknownN
	rep.SolverS = float64(st.SolverNS) / 1e9
	rep.MaxQueryMS = float64(st.MaxQueryNS) / 1e6
	rep.WallS = time.Since(t0).Seconds()
	rep.Paths = len(prog)
	rep.Done = len(prog)
	rep.SymPaths = len(results)
	rep.Decisions = int64(len(results))
	for _, r := range results {
		rep.Samples = append(rep.Samples, map[string]interface{}{"query": r.Query, "threads": r.N, "max_slots_upto": r.M, "steps": r.Steps, "expected": r.Expect, "answer": r.Answer, "ms": r.MS, "schedule": r.Schedule})
	}
	cr.reports = append(cr.reports, rep)
	if cr.verbose {
		for _, r := range results {
			fmt.Fprintf(os.Stderr, "tc %s N=%d M<=%d steps=%d: %s (expected %s) %.0f ms %s\n", r.Query, r.N, r.M, r.Steps, r.Answer, r.Expect, r.MS, r.Schedule)
		}
	}
}

func progText(prog map[[2]int][]int) string {
	var keys [][2]int
	for k := range prog {
		keys = append(keys, k)
	}
	sort.Slice(keys, func(i, j int) bool {
		if keys[i][0] != keys[j][0] {
			return keys[i][0] < keys[j][0]
		}
		return keys[i][1] < keys[j][1]
	})
	var sb strings.Builder
	for _, k := range keys {
		fmt.Fprintf(&sb, "  kind=%d cores=%d:", k[0], k[1])
		for _, o := range prog[k] {
			sb.WriteString(" " + opNames[o])
		}
		sb.WriteString("\n")
	}
	return sb.String()
}

func (cr *checkRun) keepText(name, text string) string {
	dir := verifDir() + "/findings/run"
	os.MkdirAll(dir, 0755)
	p := dir + "/" + name
	os.WriteFile(p, []byte(text), 0644)
	return p
}

// ---------------------------------------------------------------- inductive variant
//
// The bounded composition above needs N x (thread length) steps and stops scaling at
// N = 3 for the deadlock query. The inductive variant has no step bound: the state
// (program counters, kinds, core counts, max, tokens, lock holder) is arbitrary but
// satisfies an invariant derived mechanically from the extracted thread programs:
//
//   Inv:  tokens = Σ_i (#S executed by thread i − #R executed by thread i)   (from pc_i)
//         tokens <= max
//         holder = i+1  <=>  pc_i lies after an L and not after the matching U
//
// and the solver is asked for (init) Inv holds initially, (step) Inv is preserved by every
// enabled move of every thread, (safe) Inv => Σ cores of threads between B and E <= max,
// (live) Inv ∧ not all finished => some thread is enabled, (live-rdv) the same when E
// needs every command to have begun and the commands fit into the slots together.
// If (step) fails the invariant is too weak for this code (e.g. non-blocking operations):
// that is reported as "induction not applicable", never as a violation; a sat answer to
// (safe) / (live) is a state that may be unreachable, so it is reported as inconclusive —
// violations come only from the bounded composition, which replays a real schedule.

type indState struct {
	pc     []*sym.Term
	tok    *sym.Term
	holder *sym.Term
}

func (cr *checkRun) runTCInduction(which string, N, M int, prog map[[2]int][]int, kinds []int, rep *harnessReport, st *smt.Stats) {
	c := sym.NewCtx()
	bv := func(w, v int) *sym.Term { return c.BV(w, uint64(v)) }
	const PW = 6
	max := c.Var("max", 4)
	var assume []*sym.Term
	assume = append(assume, c.Ule(bv(4, 1), max), c.Ule(max, bv(4, M)))
	kind := make([]*sym.Term, N)
	cores := make([]*sym.Term, N)
	for i := 0; i < N; i++ {
		kind[i] = c.Var(fmt.Sprintf("kind%d", i), 2)
		cores[i] = c.Var(fmt.Sprintf("cores%d", i), 4)
		ok := c.F
		for _, k := range kinds {
			ok = c.Or(ok, c.Eq(kind[i], bv(2, k)))
		}
		assume = append(assume, ok, c.Ule(bv(4, 1), cores[i]), c.Ule(cores[i], max))
	}
	// table lookups derived from the thread programs
	sel := func(i int, key [2]int) *sym.Term {
		return c.And(c.Eq(kind[i], bv(2, key[0])), c.Eq(cores[i], bv(4, key[1])))
	}
	// per (program, pc): op, #S before pc, #R before pc, inLock, running, began, valid pc
	type row struct{ op, dep, rem, inLock, running, began int }
	table := map[[2]int][]row{}
	for key, list := range prog {
		hasB := false
		for _, o := range list {
			if o == opB {
				hasB = true
			}
		}
		rows := make([]row, len(list)+1)
		dep, rem, inLock, running := 0, 0, 0, 0
		began := 0
		if !hasB {
			began = 1
		}
		for p := 0; p <= len(list); p++ {
			op := opEND
			if p < len(list) {
				op = list[p]
			}
			rows[p] = row{op, dep, rem, inLock, running, began}
			switch op {
			case opS:
				dep++
			case opR:
				rem++
			case opL:
				inLock = 1
			case opU:
				inLock = 0
			case opB:
				running, began = 1, 1
			case opE:
				running = 0
			}
		}
		table[key] = rows
	}
	look := func(i int, pc *sym.Term, f func(r row) int, w int) *sym.Term {
		res := bv(w, 0)
		for key, rows := range table {
			inner := bv(w, 0)
			for p := len(rows) - 1; p >= 0; p-- {
				inner = c.Ite(c.Eq(pc, bv(PW, p)), bv(w, f(rows[p])), inner)
			}
			res = c.Ite(sel(i, key), inner, res)
		}
		return res
	}
	validPC := func(i int, pc *sym.Term) *sym.Term {
		res := c.F
		for key, rows := range table {
			res = c.Or(res, c.And(sel(i, key), c.Ule(pc, bv(PW, len(rows)-1))))
		}
		return res
	}
	hasTry := false
	for _, list := range prog {
		for _, o := range list {
			if o == opTR || o == opTS {
				hasTry = true
			}
		}
	}
	inv := func(s indState) *sym.Term {
		r := c.Ule(s.tok, max)
		sum := bv(6, 0)
		if tcPrefilled {
			sum = c.Zext(max, 6)
		}
		for i := 0; i < N; i++ {
			r = c.And(r, validPC(i, s.pc[i]))
			d := look(i, s.pc[i], func(x row) int { return x.dep }, 6)
			m := look(i, s.pc[i], func(x row) int { return x.rem }, 6)
			sum = c.Add(sum, c.Sub(d, m))
			il := c.Eq(look(i, s.pc[i], func(x row) int { return x.inLock }, 1), bv(1, 1))
			r = c.And(r, c.Eq(il, c.Eq(s.holder, bv(3, i+1))))
		}
		r = c.And(r, c.Eq(c.Zext(s.tok, 6), sum))
		r = c.And(r, c.Ule(s.holder, bv(3, N)))
		return r
	}
	opOf := func(i int, s indState) *sym.Term { return look(i, s.pc[i], func(x row) int { return x.op }, 4) }
	enabled := func(i int, s indState, rendezvous bool) *sym.Term {
		op := opOf(i, s)
		is := func(o int) *sym.Term { return c.Eq(op, bv(4, o)) }
		e := c.Or(is(opU), is(opB), is(opD), is(opTR), is(opTS))
		e = c.Or(e, c.And(is(opL), c.Eq(s.holder, bv(3, 0))))
		e = c.Or(e, c.And(is(opS), c.Ult(s.tok, max)))
		e = c.Or(e, c.And(is(opR), c.Ult(bv(4, 0), s.tok)))
		if rendezvous {
			all := c.T
			for j := 0; j < N; j++ {
				all = c.And(all, c.Eq(look(j, s.pc[j], func(x row) int { return x.began }, 1), bv(1, 1)))
			}
			e = c.Or(e, c.And(is(opE), all))
		} else {
			e = c.Or(e, is(opE))
		}
		return e
	}
	fresh := func(tag string) indState {
		s := indState{tok: c.Var("tok"+tag, 4), holder: c.Var("holder"+tag, 3)}
		for i := 0; i < N; i++ {
			s.pc = append(s.pc, c.Var(fmt.Sprintf("pc%d%s", i, tag), PW))
		}
		return s
	}
	s0 := fresh("")
	type q struct {
		name   string
		goal   *sym.Term
		needed bool
	}
	var qs []q
	// init
	init := indState{tok: bv(4, 0), holder: bv(3, 0)}
	if tcPrefilled {
		init.tok = max
	}
	for i := 0; i < N; i++ {
		init.pc = append(init.pc, bv(PW, 0))
	}
	qs = append(qs, q{"induction.init", c.Not(inv(init)), true})
	// step: some thread i moves
	stepBad := c.F
	for i := 0; i < N; i++ {
		op := opOf(i, s0)
		is := func(o int) *sym.Term { return c.Eq(op, bv(4, o)) }
		n := indState{tok: s0.tok, holder: s0.holder}
		n.pc = append([]*sym.Term(nil), s0.pc...)
		n.pc[i] = c.Add(s0.pc[i], bv(PW, 1))
		n.tok = c.Ite(is(opS), c.Add(s0.tok, bv(4, 1)), n.tok)
		n.tok = c.Ite(is(opR), c.Sub(s0.tok, bv(4, 1)), n.tok)
		n.tok = c.Ite(c.And(is(opTR), c.Ult(bv(4, 0), s0.tok)), c.Sub(s0.tok, bv(4, 1)), n.tok)
		n.tok = c.Ite(c.And(is(opTS), c.Ult(s0.tok, max)), c.Add(s0.tok, bv(4, 1)), n.tok)
		n.holder = c.Ite(is(opL), bv(3, i+1), n.holder)
		n.holder = c.Ite(is(opU), bv(3, 0), n.holder)
		stepBad = c.Or(stepBad, c.And(enabled(i, s0, false), c.Not(inv(n))))
	}
	qs = append(qs, q{"induction.step", c.And(inv(s0), stepBad), true})
	allFin := c.T
	for i := 0; i < N; i++ {
		allFin = c.And(allFin, c.Eq(opOf(i, s0), bv(4, opEND)))
	}
	if which == "C06" {
		load := bv(6, 0)
		for i := 0; i < N; i++ {
			run := c.Eq(look(i, s0.pc[i], func(x row) int { return x.running }, 1), bv(1, 1))
			load = c.Add(load, c.Ite(run, c.Zext(cores[i], 6), bv(6, 0)))
		}
		qs = append(qs, q{"induction.no-overuse", c.And(inv(s0), c.Ult(c.Zext(max, 6), load)), false})
	} else {
		any := c.F
		anyR := c.F
		for i := 0; i < N; i++ {
			any = c.Or(any, enabled(i, s0, false))
			anyR = c.Or(anyR, enabled(i, s0, true))
		}
		qs = append(qs, q{"induction.no-deadlock", c.And(inv(s0), c.Not(allFin), c.Not(any)), false})
		sum := bv(6, 0)
		for i := 0; i < N; i++ {
			hasCmd := c.F
			for key, list := range prog {
				for _, o := range list {
					if o == opB {
						hasCmd = c.Or(hasCmd, sel(i, key))
						break
					}
				}
			}
			sum = c.Add(sum, c.Ite(hasCmd, c.Zext(cores[i], 6), bv(6, 0)))
		}
		qs = append(qs, q{"induction.work-conservation", c.And(inv(s0), c.Ule(sum, c.Zext(max, 6)), c.Not(allFin), c.Not(anyR)), false})
	}
	usable := !hasTry
	for _, qq := range qs {
		s, err := smt.Start(cr.solver, 10*time.Minute, st)
		if err != nil {
			cr.problems = append(cr.problems, err.Error())
			return
		}
		for _, a := range assume {
			s.Assert(a)
		}
		s.Assert(qq.goal)
		t0 := time.Now()
		r := s.Check()
		s.Close()
		ms := float64(time.Since(t0).Microseconds()) / 1000
		rep.Samples = append(rep.Samples, map[string]interface{}{"query": qq.name, "threads": N, "max_slots_upto": M, "steps": "unbounded (one inductive step)", "expected": "unsat", "answer": r.String(), "ms": ms})
		if cr.verbose {
			fmt.Fprintf(os.Stderr, "tc %s N=%d M<=%d: %s %.0f ms\n", qq.name, N, M, r, ms)
		}
		switch {
		case r == smt.Unsat && usable:
			rep.Discharged[which+"."+qq.name]++
		case qq.needed && r != smt.Unsat:
			usable = false
			rep.Samples = append(rep.Samples, map[string]interface{}{"note": "the mechanically derived invariant is not inductive for these thread programs: the inductive variant does not apply (the bounded composition stands alone)"})
		case r == smt.Unknown:
			cr.problems = append(cr.problems, "tc "+qq.name+": solver unknown")
		case r == smt.Sat && usable:
			// a state inside the invariant, possibly unreachable: not a violation by itself
			cr.problems = append(cr.problems, fmt.Sprintf("tc %s (N=%d): the invariant does not exclude a bad state; only the bounded composition can confirm or refute it", qq.name, N))
		}
	}
}

// filterLocks drops L:/U: events of mutexes that never enclose a channel operation.
func filterLocks(tr []string) []string {
	keep := map[string]bool{}
	held := map[string]bool{}
	for _, ev := range tr {
		switch {
		case strings.HasPrefix(ev, "L:"):
			held[ev[2:]] = true
		case strings.HasPrefix(ev, "U:"):
			delete(held, ev[2:])
		case ev == "S" || ev == "R" || ev == "TS" || ev == "TR" || strings.HasPrefix(ev, "S:") || strings.HasPrefix(ev, "R:"):
			for n := range held {
				keep[n] = true
			}
		}
	}
	var out []string
	for _, ev := range tr {
		if (strings.HasPrefix(ev, "L:") || strings.HasPrefix(ev, "U:")) && !keep[ev[2:]] {
			continue
		}
		out = append(out, ev)
	}
	return out
}
