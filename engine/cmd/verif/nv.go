package main

import (
	"fmt"
	"os"
	"os/exec"
	"path/filepath"
	"sort"
	"strings"
	"time"

	"verif/engine/gose"
	"verif/engine/smt"
)

const vcmdScript = `#!/bin/bash
# native side of the command model: w:/x: write the target, r: read it
for a in "$@"; do
  case "$a" in
    w:*|x:*) echo "data written by vcmd $*" > "${a:2}" || exit 1 ;;
    h:*) printf "partial" > "${a:2}" || exit 1 ;;
    r:*) cat "${a:2}" > /dev/null || exit 1 ;;
    p:*) cat "${a:2}" || exit 1 ;;
    e:255) kill -KILL $PPID; sleep 5; exit 1 ;;
    e:*) exit "${a:2}" ;;
  esac
done
exit 0
`

// modelValidation runs concrete workflow scenarios both in the interpreter (environment
// model) and natively (real bash, real file system) and compares what they emit.
func (cr *checkRun) modelValidation(scenarios []int) {
	sp := cr.prog.Pkgs[pkgPaths["components"]]
	fn := sp.Func("VxHNV")
	if fn == nil {
		cr.problems = append(cr.problems, "no harness VxHNV")
		return
	}
	for _, sc := range scenarios {
		var st smt.Stats
		s, err := smt.Start("z3-new", 300*time.Second, &st)
		if err != nil {
			cr.problems = append(cr.problems, err.Error())
			return
		}
		res := cr.prog.RunPath(fn, nil, s, gose.ExploreOpts{MaxSteps: 20_000_000, Params: map[string]int64{"scenario": int64(sc)}}, nil, &st, false)
		s.Close()
		if res.Status != "done" {
			cr.problems = append(cr.problems, fmt.Sprintf("model validation scenario %d: interpreter run ended %s %s", sc, res.Status, res.Msg))
			continue
		}
		h := H{Pkg: "components", Fn: "VxHNV", Params: map[string]int64{"scenario": int64(sc)}}
		plan := cr.writePlan(h, map[string]interface{}{}, fmt.Sprintf("nv%d", sc))
		bindir := filepath.Join(cr.scratch, "nvbin")
		os.MkdirAll(bindir, 0755)
		os.WriteFile(filepath.Join(bindir, "vcmd"), []byte(vcmdScript), 0755)
		env := []string{"PATH=" + bindir + ":" + os.Getenv("PATH")}
		var ok bool
		var out string
		if sc == 5 || sc == 6 {
			// phase 1: the workflow is killed by strace immediately before the rename that
			// touches the given path; phase 2: a second process reports the directory
			target := map[int]string{5: "extra.txt", 6: "sub/a.txt"}[sc]
			ok, out = cr.nativeKillThenReport(h, plan, env, target)
		} else if sc >= 7 && sc <= 9 {
			// phase 1: a command fails (exit status / shell killed by a signal / declared
			// output missing) and the library ends the program; phase 2 reports the directory
			ok, out = cr.nativeKillThenReport(h, plan, env, "")
		} else {
			ok, out = cr.nativeReplayEnv(h, plan, env)
		}
		var native []string
		for _, l := range strings.Split(out, "\n") {
			if strings.HasPrefix(l, "VXOUT ") {
				native = append(native, strings.TrimPrefix(l, "VXOUT "))
			}
		}
		model := append([]string(nil), res.Emitted...)
		sort.Strings(native)
		sort.Strings(model)
		if !ok || strings.Join(native, "\n") != strings.Join(model, "\n") || len(model) == 0 {
			diff := firstDiff(model, native)
			cr.problems = append(cr.problems, fmt.Sprintf("model validation scenario %d: the environment model and the native run disagree (native ok=%v): %s", sc, ok, diff))
			if cr.verbose {
				fmt.Fprintf(os.Stderr, "--- model\n%s\n--- native\n%s\n--- native output tail\n%s\n", strings.Join(model, "\n"), strings.Join(native, "\n"), lastLines(out, 8))
			}
			continue
		}
		cr.traces++
		cr.nvDone = append(cr.nvDone, fmt.Sprintf("scenario %d: %d emitted lines identical in the model and natively", sc, len(model)))
	}
}

func firstDiff(a, b []string) string {
	for i := 0; i < len(a) || i < len(b); i++ {
		var x, y string
		if i < len(a) {
			x = a[i]
		}
		if i < len(b) {
			y = b[i]
		}
		if x != y {
			return fmt.Sprintf("line %d: model %q / native %q", i, x, y)
		}
	}
	return "no difference in emitted lines"
}

func (cr *checkRun) nativeReplayEnv(h H, plan string, extraEnv []string) (bool, string) {
	bin, ok := cr.nativeBin[h.Pkg]
	if !ok {
		b, err := buildNative(h.Pkg, cr.scratch, cr.prog)
		if err != nil {
			cr.problems = append(cr.problems, err.Error())
			cr.nativeBin[h.Pkg] = ""
			return false, err.Error()
		}
		bin = b
		cr.nativeBin[h.Pkg] = b
	}
	if bin == "" {
		return false, "native binary unavailable"
	}
	wd, _ := os.MkdirTemp(cr.scratch, "nv.")
	defer os.RemoveAll(wd)
	cmd := exec.Command("timeout", "120", bin, "-test.run", "^TestVxReplay$", "-test.count=1")
	cmd.Dir = wd
	cmd.Env = append(append(os.Environ(), "VX_PLAN="+plan, "VX_HARNESS="+h.Fn), extraEnv...)
	out, err := cmd.CombinedOutput()
	return err == nil, string(out)
}

// nativeKillThenReport: run the harness natively under strace, which delivers SIGKILL
// right before the rename whose destination is `target`; then run it again in report mode.
func (cr *checkRun) nativeKillThenReport(h H, plan string, env []string, target string) (bool, string) {
	bin, ok := cr.nativeBin[h.Pkg]
	if !ok {
		b, err := buildNative(h.Pkg, cr.scratch, cr.prog)
		if err != nil {
			cr.problems = append(cr.problems, err.Error())
			cr.nativeBin[h.Pkg] = ""
			return false, err.Error()
		}
		bin = b
		cr.nativeBin[h.Pkg] = b
	}
	if bin == "" {
		return false, "native binary unavailable"
	}
	wd, _ := os.MkdirTemp(cr.scratch, "nvk.")
	defer os.RemoveAll(wd)
	c1 := exec.Command("timeout", "120", "strace", "-f", "-qq", "-o", "/dev/null", "-P", target, "-P", filepath.Join(wd, target),
		"-e", "trace=rename,renameat,renameat2", "-e", "inject=rename,renameat,renameat2:signal=KILL",
		bin, "-test.run", "^TestVxReplay$", "-test.count=1")
	if target == "" {
		// no injection: the program ends itself (os.Exit after a failed command)
		c1 = exec.Command("timeout", "120", bin, "-test.run", "^TestVxReplay$", "-test.count=1")
	}
	c1.Dir = wd
	c1.Env = append(append(os.Environ(), "VX_PLAN="+plan, "VX_HARNESS="+h.Fn), env...)
	out1, _ := c1.CombinedOutput()
	if strings.Contains(string(out1), "VXRESULT") {
		return false, "the native run was not ended before its end: " + lastLines(string(out1), 3)
	}
	// report mode
	b, _ := os.ReadFile(plan)
	plan2 := strings.Replace(string(b), "{", "{\n \"param.report\": 1,", 1)
	p2 := plan + ".report.json"
	os.WriteFile(p2, []byte(plan2), 0644)
	c2 := exec.Command("timeout", "120", bin, "-test.run", "^TestVxReplay$", "-test.count=1")
	c2.Dir = wd
	c2.Env = append(append(os.Environ(), "VX_PLAN="+p2, "VX_HARNESS="+h.Fn), env...)
	out2, err := c2.CombinedOutput()
	return err == nil, string(out2)
}

func cmdNV(args []string) int {
	ov, _ := loadOverlay()
	prog, err := gose.Load(repoDir, ov)
	if err != nil {
		fmt.Println(err)
		return 2
	}
	scratch, _ := os.MkdirTemp("", "verif.nv.")
	defer os.RemoveAll(scratch)
	cr := &checkRun{scratch: scratch, prog: prog, nativeBin: map[string]string{}, check: &Check{ID: "NV"}, verbose: true}
	var scs []int
	for _, a := range args {
		var n int
		fmt.Sscan(a, &n)
		scs = append(scs, n)
	}
	cr.modelValidation(scs)
	for _, d := range cr.nvDone {
		fmt.Println("OK", d)
	}
	for _, p := range cr.problems {
		fmt.Println("PROBLEM", p)
	}
	if len(cr.problems) > 0 {
		return 2
	}
	return 0
}
