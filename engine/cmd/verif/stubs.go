package main

func cmdCheck(args []string) int    { return 2 }
func cmdReplay(args []string) int   { return 2 }
func cmdSelftest(args []string) int { return 2 }
