package main

import (
	"fmt"
	"os/exec"
)

// cmdSelftest checks that the tools the checks need are present (solvers) and that the
// harness overlay loads and type-checks against the current /repo.
func cmdSelftest(args []string) int {
	for _, b := range []string{"z3-new", "z3", "cvc5", "go"} {
		if _, err := exec.LookPath(b); err != nil {
			fmt.Println("selftest: missing tool", b)
			return 2
		}
	}
	ov, err := loadOverlay()
	if err != nil {
		fmt.Println("selftest:", err)
		return 2
	}
	if _, err := loadProgram(ov); err != nil {
		fmt.Println("selftest: cannot load /repo with the harness overlay:", err)
		return 2
	}
	fmt.Println("selftest: ok")
	return 0
}
