package main

func cmdSelftest(args []string) int { return 0 }
