package main

var envAssumptions = []string{
	"file system model: a map from normalised absolute path to node {absent|file|dir|fifo, content identity, inode, mtime}; os.Stat/MkdirAll/Rename/Remove/RemoveAll/WriteFile/ReadFile, filepath.Walk/Glob act on it; rename(2) is atomic; every mutating call is a numbered crash point",
	"command model (vcmd): bash -c 'cd DIR && vcmd w:PATH.. r:PATH.. && cd ..' is parsed from the concrete command string built by the real code; each declared write is nothing / partial / complete (symbolic), the exit status is symbolic (255 = killed by a signal); exit 0 implies that what was written is complete; a read of a missing file fails the command",
	"kill model: the whole program is killed immediately before crash point number K (K symbolic); goroutines: cooperative scheduler (run until blocked, lowest id first), select among several ready cases is a solver-decided choice",
	"os.Exit ends the run (kind exit), deferred functions are not run; a panic ends the run (kind panic)",
	"encoding/json is modelled as a deep snapshot of the marshalled value; time.Now is a non-decreasing clock",
}

func init() {
	var q01, t01 []H
	for _, st := range [][2]int{{0, 1}, {1, 0}, {2, 0}, {3, 0}} {
		q01 = append(q01, H{Pkg: "scipipe", Fn: "VxH01wf", Params: p("shape", st[0], "two", st[1], "N", 60), MustReach: []string{"ran-returned", "ran-killed", "ran-exit"}, MustAssert: []string{"C01.final-path-absent-or-complete", "C01.all-outputs-present-on-success"}})
	}
	for sh := 0; sh <= 3; sh++ {
		for two := 0; two <= 1; two++ {
			t01 = append(t01, H{Pkg: "scipipe", Fn: "VxH01wf", Params: p("shape", sh, "two", two, "N", 60), MustReach: []string{"ran-returned", "ran-killed", "ran-exit"}, MustAssert: []string{"C01.final-path-absent-or-complete", "C01.all-outputs-present-on-success"}})
		}
	}
	q01 = append(q01, H{Pkg: "scipipe", Fn: "VxH01wf", Params: p("shape", 0, "two", 1, "side", 1, "N", 70), MustReach: []string{"ran-returned", "ran-killed", "ran-exit"}, MustAssert: []string{"C01.final-path-absent-or-complete", "C09.failed-output-not-finalized"}})
	t01 = append(t01, H{Pkg: "scipipe", Fn: "VxH01wf", Params: p("shape", 1, "two", 1, "side", 1, "N", 70), MustReach: []string{"ran-returned", "ran-killed", "ran-exit"}, MustAssert: []string{"C01.final-path-absent-or-complete", "C09.failed-output-not-finalized"}})
	q01 = append(q01, H{Pkg: "components", Fn: "VxH01conc", Params: p("preempt", 2), MustReach: []string{"ran-returned", "ran-exit"}, MustAssert: []string{"C01.conc.final-path-absent-or-complete", "C01.conc.output-of-its-own-task"}})
	t01 = append(t01, H{Pkg: "components", Fn: "VxH01conc", Params: p("preempt", 3), MustReach: []string{"ran-returned", "ran-exit"}, MustAssert: []string{"C01.conc.final-path-absent-or-complete", "C01.conc.output-of-its-own-task"}})
	q01 = append(q01, H{Pkg: "scipipe", Fn: "VxH01go", Params: p("N", 12), MustReach: []string{"ran-killed"}})
	t01 = append(t01, H{Pkg: "scipipe", Fn: "VxH01go", Params: p("N", 12), MustReach: []string{"ran-killed"}})
	b01 := map[string]string{
		"workflow":      "real Workflow.Run of two command processes a -> b; a has 1 or 2 outputs, optionally a third one declared only through SetOut (no placeholder in the command)",
		"output shapes": "plain, nested new directories, ../ relative, absolute (destination directory existing)",
		"command faults": "per declared write nothing/partial/complete, exit status 0..255 (255 = signal), for both commands",
		"kill points":   "before every file-system effect of the run (up to 60; the harness asserts that the range covers the run)",
		"rename order":  "iteration order of the output map in finalizePaths is a symbolic choice",
		"concurrent tasks": "two tasks of one process (inputs a/x.txt, b/x.txt) on two slots, every file-system effect a scheduling point, up to 2 (thorough 3) solver-chosen deviations from the default schedule, both commands fail in any way",
	}
	regCheck(&Check{ID: "C01", Quick: q01, Thorough: t01, Bounds: b01,
		Outside:     []string{"commands that escape their working directory on their own", "more than two tasks in flight at once; interleavings with more deviations (distinct temp dirs for all identities are C14)", "streaming outputs (C17)"},
		Assumptions: append(append([]string{}, envAssumptions...), commonAssumptions[0], commonAssumptions[3]),
		Stubs:       []string{"os.*, exec.Command, ioutil.*, filepath.Walk, json, time.Now, log, randSeqLC"}})
	// C09 uses the same explorations with its own assertions
	q09 := []H{}
	for _, h := range append(append([]H{}, q01[:4]...), q01[4]) {
		h2 := h
		h2.MustAssert = []string{"C09.no-silent-failure", "C09.failure-gives-nonzero-exit", "C09.dependant-not-executed", "C09.failed-output-not-finalized"}
		q09 = append(q09, h2)
	}
	q09 = append(q09, H{Pkg: "scipipe", Fn: "VxH15missing", MustReach: []string{"tried"}, MustAssert: []string{"C15.missing-value-stops", "C15.missing-value-no-task"}})
	q09 = append(q09, H{Pkg: "scipipe", Fn: "VxH09path", Params: p("L", 3), MustReach: []string{"tried"}, MustAssert: []string{"C09.invalid-output-path-stops"}})
	regCheck(&Check{ID: "C09", Quick: q09, Thorough: q09, Bounds: b01,
		Outside:     []string{"streaming consumers (they run concurrently with their producer by design, C17)", "shell pipelines that mask a failure inside the user's command"},
		Assumptions: append(append([]string{}, envAssumptions...), commonAssumptions[0], commonAssumptions[3]),
		Stubs:       []string{"os.*, exec.Command, ioutil.*, filepath.Walk, json, time.Now, log, randSeqLC"}})

	var q02, t02 []H
	for _, st := range [][2]int{{0, 1}, {1, 0}, {2, 0}, {3, 0}} {
		q02 = append(q02, H{Pkg: "scipipe", Fn: "VxH02", Params: p("shape", st[0], "two", st[1]), MustReach: []string{"ran"}, MustAssert: []string{"C02.existing-output-not-reexecuted", "C02.existing-file-untouched", "C02.rerun-executes-nothing"}})
	}
	for sh := 0; sh <= 3; sh++ {
		for two := 0; two <= 1; two++ {
			t02 = append(t02, H{Pkg: "scipipe", Fn: "VxH02", Params: p("shape", sh, "two", two), MustReach: []string{"ran"}, MustAssert: []string{"C02.existing-output-not-reexecuted", "C02.existing-file-untouched", "C02.rerun-executes-nothing"}})
		}
	}
	q02 = append(q02, H{Pkg: "scipipe", Fn: "VxH02go", Params: p("preempt", 2), MustReach: []string{"ran"}, MustAssert: []string{"C02.existing-output-not-reexecuted", "C02.existing-file-untouched"}},
		H{Pkg: "components", Fn: "VxH02glob", Params: p("preempt", 1), MustReach: []string{"ran"}, MustAssert: []string{"C02.rerun-executes-nothing"}})
	t02 = append(t02, H{Pkg: "scipipe", Fn: "VxH02go", Params: p("preempt", 3), MustReach: []string{"ran"}, MustAssert: []string{"C02.existing-output-not-reexecuted", "C02.existing-file-untouched"}},
		H{Pkg: "components", Fn: "VxH02glob", Params: p("preempt", 2), MustReach: []string{"ran"}, MustAssert: []string{"C02.rerun-executes-nothing"}})
	regCheck(&Check{ID: "C02", Quick: q02, Thorough: t02,
		Bounds: map[string]string{
			"workflow":  "real Workflow.Run of a -> b, a with 1 or 2 outputs, four output-path shapes",
			"pre-state": "every subset of the declared outputs pre-exists, each with a symbolic content identity; then the completed workflow is run a second time",
			"other workflows": "a Go-function task executing (with scheduling points inside the function) while two tasks with existing outputs are created, <= 2 (3) schedule deviations; upstream with three tasks -> dependent file globber -> downstream, run twice, <= 1 (2) deviations",
			"map order": "symbolic iteration order in anyOutputsExist and finalizePaths",
		},
		Outside:     []string{"streaming outputs (C17)", "file-writing components (C19)", "byte contents (identity tags instead)"},
		Assumptions: append(append([]string{}, envAssumptions...), commonAssumptions[0], commonAssumptions[3]),
		Stubs:       []string{"os.*, exec.Command, ioutil.*, filepath.Walk, json, time.Now, log, randSeqLC"}})

	regCheck(&Check{ID: "C03",
		Quick: []H{
			{Pkg: "scipipe", Fn: "VxH03", Params: p("two", 0, "N", 45, "crashes", 1), MustReach: []string{"converged", "refused"}, MustAssert: []string{"C03.restart-completes", "C03.leftovers-refused", "C03.final-output-kept", "C03.converges-to-uninterrupted-result"}},
			{Pkg: "scipipe", Fn: "VxH03", Params: p("two", 1, "N", 45, "crashes", 1), MustReach: []string{"converged", "refused", "known"}, MustAssert: []string{"C03.restart-completes", "C03.leftovers-refused", "C03.final-output-kept"}},
			{Pkg: "components", Fn: "VxH03split", Params: p("N", 40), MustReach: []string{"reran"}, MustAssert: []string{"C03.split.restart-completes"}},
		},
		Thorough: []H{
			{Pkg: "components", Fn: "VxH03split", Params: p("N", 40), MustReach: []string{"reran"}, MustAssert: []string{"C03.split.restart-completes"}},
			{Pkg: "scipipe", Fn: "VxH03", Params: p("two", 0, "N", 45, "crashes", 2), MustReach: []string{"converged", "refused"}, MustAssert: []string{"C03.restart-completes", "C03.leftovers-refused", "C03.final-output-kept", "C03.converges-to-uninterrupted-result"}},
			{Pkg: "scipipe", Fn: "VxH03", Params: p("two", 1, "N", 45, "crashes", 2), MustReach: []string{"converged", "refused", "known"}, MustAssert: []string{"C03.restart-completes", "C03.leftovers-refused", "C03.final-output-kept"}},
		},
		Bounds: map[string]string{
			"history":     "run killed at a symbolic point; clean-up of temp dirs or not (symbolic); re-run; thorough: the re-run may be killed too (crash during recovery), clean-up, third run; also a workflow with a tagging component and a Concatenator (components that write to final locations themselves); Go-side file writes are truncate-then-write, a kill may fall in between",
			"workflow":    "a -> b with 1 or 2 outputs of a; every run uses freshly constructed workflow objects",
			"kill points": "before every file-system effect (0..45, beyond the end of the run is excluded by an assumption)",
		},
		Outside:     []string{"undeclared extra files", "streaming outputs and FIFOs (C17)", "longer workflows (per-task argument: tasks interact only through final paths, C01, and distinct temp dirs, C14)"},
		Assumptions: append(append([]string{}, envAssumptions...), commonAssumptions[0], commonAssumptions[3]),
		Stubs:       []string{"os.*, exec.Command, ioutil.*, filepath.Walk, json, time.Now, log, randSeqLC"}})
}

func init() {
	ma10 := []string{"C10.every-output-has-a-record", "C10.merge.command", "C10.merge.upstream-tags-present", "C10.fin.upstream-is-the-producers-record", "C10.recorded-command-is-executed-command", "C10.merge.duration"}
	regCheck(&Check{ID: "C10",
		Quick: []H{{Pkg: "components", Fn: "VxH10", MustReach: []string{"ran"}, MustAssert: ma10},
			{Pkg: "components", Fn: "VxH10", Params: p("prepend", 1, "shape", 1), MustReach: []string{"ran"}, MustAssert: ma10},
			{Pkg: "components", Fn: "VxH10", Params: p("prepend", 0, "shape", 2), MustReach: []string{"ran"}, MustAssert: ma10},
			{Pkg: "components", Fn: "VxH10", Params: p("diamond", 1), MustReach: []string{"ran"}, MustAssert: ma10},
			{Pkg: "components", Fn: "VxH10kill", Params: p("N", 70), MustReach: []string{"killed"}, MustAssert: []string{"C10.finalized-output-always-has-its-record"}}},
		Bounds: map[string]string{
			"workflow":  "two FileSources -> two MapToTags (different tags) -> two-input, two-output command process with a parameter (with and without a Prepend prefix) -> final command process whose output is plain / ../ relative / absolute, run by the real Workflow.Run",
			"clock":     "time.Now returns fresh symbolic non-decreasing instants: the timing clauses (start <= finish, duration = finish - start >= 0) are decided for every clock behaviour",
			"map order": "symbolic iteration order in writeAuditLogs, createTasks and AddTags",
		},
		Outside:     []string{"symbolic parameter / tag values (they enter the temp-dir hash and thereby the command string, which the command model needs concrete)", "byte-level JSON formatting (encoding/json is modelled as a snapshot)", "joined sub-stream members (C18 checks the member list the audit code iterates over)"},
		Assumptions: append(append([]string{}, envAssumptions...), commonAssumptions[0], commonAssumptions[3]),
		Stubs:       []string{"os.*, exec.Command, ioutil.*, filepath.Walk, encoding/json (snapshot), time.Now (symbolic clock), log, randSeqLC"}})
	ma11 := []string{"C11.resumed-run-completes", "C11.ancestor-record-identical-to-disk", "C11.lineage.command", "C11.tags-survive", "C11.upstream-not-recomputed"}
	regCheck(&Check{ID: "C11",
		Quick: []H{
			{Pkg: "components", Fn: "VxH11", Params: p("mode", 0), MustReach: []string{"resumed"}, MustAssert: ma11},
			{Pkg: "components", Fn: "VxH11", Params: p("mode", 1), MustReach: []string{"resumed"}, MustAssert: ma11},
			{Pkg: "components", Fn: "VxH11", Params: p("mode", 2, "N", 70), MustReach: []string{"resumed"}, MustAssert: ma11},
			{Pkg: "components", Fn: "VxH11", Params: p("mode", 3), MustReach: []string{"resumed"}, MustAssert: ma11},
		},
		Bounds: map[string]string{
			"histories": "(3) four runs inside one program with outputs deleted in between (run; delete f; run; delete m, side, f; run; delete f; run); (0) RunTo(merge) then a new full run, (1) full run, delete the final output, run again, (2) run killed at a symbolic point before any file-system effect (0..70), temp dirs removed, run again",
			"workflow":  "the C10 workflow; every run uses freshly built workflow objects; records are read back with UnmarshalAuditInfoJSONFile",
		},
		Outside:     []string{"encoding/json itself (snapshot model; side condition: all AuditInfo fields are exported)", "several restarts in a row (C03)"},
		Assumptions: append(append([]string{}, envAssumptions...), commonAssumptions[0], commonAssumptions[3]),
		Stubs:       []string{"os.*, exec.Command, ioutil.*, filepath.Walk, encoding/json (snapshot), time.Now, log, randSeqLC"}})
}

func init() {
	graphBounds := map[string]string{
		"graphs":     "every workflow built from: optional ParamSource S (3 values) or FromStr feeding A; A (no in-ports); B <- A; C <- A | B | A+B (fan-in); optional D with in-ports a, b <- A|B|C each (a possibly left unconnected), with or without an out-port (a process without out-ports drives the workflow); optional file->parameter converter F <- A|B and E <- F; dangling out-ports everywhere they arise",
		"run mode":   "Run, or RunTo one symbolic target among the command processes",
		"streams":    "1 or 3 items per stream with SCIPIPE_BUFSIZE=1 (streams longer than buffer + 1), fan-in up to 6 items",
		"scheduling": "cooperative run-until-blocked schedule, every select with several ready cases is a symbolic choice; thorough: also with buffer size 2, and the sub-family without D/E/F with one solver-chosen deviation from the default schedule",
	}
	gq := func(ma []string, mr []string) []H {
		return []H{{Pkg: "components", Fn: "VxH16graph", Params: p("bufsize", 1, "preempt", 0), MustReach: mr, MustAssert: ma}}
	}
	gt := func(ma []string, mr []string) []H {
		return []H{{Pkg: "components", Fn: "VxH16graph", Params: p("bufsize", 1, "preempt", 0), MustReach: mr, MustAssert: ma},
			{Pkg: "components", Fn: "VxH16graph", Params: p("bufsize", 2, "preempt", 0), MustReach: mr, MustAssert: ma},
			{Pkg: "components", Fn: "VxH16graph", Params: p("bufsize", 1, "preempt", 1, "small", 1), MustReach: []string{"ran"}, MustAssert: []string{"C04.every-input-set-once", "C05.run-returns"}}}
	}
	out := []string{"unequal stream lengths on the ports of one process (surplus dropped by design)", "cyclic graphs", "graphs with more than 7 processes", "streaming outputs (C17)", "whole-graph deadlock freedom beyond the explored schedules"}
	as := append(append([]string{}, envAssumptions...), commonAssumptions[0], commonAssumptions[3])
	st := []string{"os.*, exec.Command, ioutil.*, filepath.Walk, json, time.Now, log, randSeqLC; Go channels, select, mutex: interpreter objects with Go semantics"}
	regCheck(&Check{ID: "C16", Quick: append(gq([]string{"C16.unconnected-port-refused", "C16.refused-before-any-command", "C16.only-the-closure-runs", "C04.every-input-set-once"}, []string{"ran", "refused"}), H{Pkg: "components", Fn: "VxH16glob", MustReach: []string{"ran"}, MustAssert: []string{"C16.glob.upstream-of-dependency-port-included", "C16.unconnected-port-refused"}}),
		Thorough: append(gt([]string{"C16.unconnected-port-refused", "C16.refused-before-any-command", "C16.only-the-closure-runs", "C04.every-input-set-once"}, []string{"ran", "refused"}), H{Pkg: "components", Fn: "VxH16glob", MustReach: []string{"ran"}, MustAssert: []string{"C16.glob.upstream-of-dependency-port-included", "C16.unconnected-port-refused"}}),
		Bounds:   graphBounds, Outside: out, Assumptions: as, Stubs: st})
	q04 := gq([]string{"C04.every-input-set-once"}, []string{"ran"})
	q04 = append(q04, H{Pkg: "scipipe", Fn: "VxH01wf", Params: p("shape", 0, "two", 1, "N", 60), MustReach: []string{"ran-returned"}, MustAssert: []string{"C04.each-task-once"}})
	q04 = append(q04, H{Pkg: "components", Fn: "VxH02glob", Params: p("preempt", 1), MustReach: []string{"ran"}, MustAssert: []string{"C04.glob.every-upstream-file-processed"}})
	regCheck(&Check{ID: "C04", Quick: q04, Thorough: append(gt([]string{"C04.every-input-set-once"}, []string{"ran"}), q04[1:]...),
		Bounds: graphBounds, Outside: out, Assumptions: as, Stubs: st})
	q05 := gq([]string{"C05.run-returns", "C05.no-temp-dir-left", "C04.every-input-set-once"}, []string{"ran"})
	q05 = append(q05, H{Pkg: "scipipe", Fn: "VxH01wf", Params: p("shape", 0, "two", 1, "N", 60), MustReach: []string{"ran-returned"}, MustAssert: []string{"C05.no-temp-dir-left"}})
	q05 = append(q05, H{Pkg: "components", Fn: "VxH19joint", Params: p("file", 0), MustReach: []string{"ran"}, MustAssert: []string{"C19.joint.run-returns"}})
	regCheck(&Check{ID: "C05", Quick: q05, Thorough: append(gt([]string{"C05.run-returns", "C05.no-temp-dir-left", "C04.every-input-set-once"}, []string{"ran"}), q05[1:]...),
		Bounds: graphBounds, Outside: out, Assumptions: as, Stubs: st})
}

func init() {
	ma := []string{"C08.arrival-order-kept", "C08.every-output-forwarded-once", "C08.run-returns"}
	regCheck(&Check{ID: "C08",
		Quick: []H{
			{Pkg: "components", Fn: "VxH08", Params: p("n", 3, "bufsize", 1, "preempt", 1), MustReach: []string{"ran"}, MustAssert: ma},
			{Pkg: "components", Fn: "VxH08fanin", Params: p("preempt", 2), MustReach: []string{"ran"}, MustAssert: []string{"C08.fanin.per-upstream-order-kept", "C08.fanin.all-delivered-once"}},
			{Pkg: "components", Fn: "VxH08stream", Params: p("n", 3, "preempt", 1), MustReach: []string{"ran"}, MustAssert: []string{"C08.arrival-order-kept", "C08.every-output-forwarded-once"}},
			{Pkg: "components", Fn: "VxH08join", Params: p("preempt", 1), MustReach: []string{"ran"}, MustAssert: []string{"C08.arrival-order-kept"}},
		},
		Thorough: []H{
			{Pkg: "components", Fn: "VxH08", Params: p("n", 3, "bufsize", 1, "preempt", 2), MustReach: []string{"ran"}, MustAssert: ma},
			{Pkg: "components", Fn: "VxH08", Params: p("n", 4, "bufsize", 2, "preempt", 1), MustReach: []string{"ran"}, MustAssert: ma},
			{Pkg: "components", Fn: "VxH08fanin", Params: p("preempt", 3), MustReach: []string{"ran"}, MustAssert: []string{"C08.fanin.per-upstream-order-kept", "C08.fanin.all-delivered-once"}},
			{Pkg: "components", Fn: "VxH08stream", Params: p("n", 3, "preempt", 2), MustReach: []string{"ran"}, MustAssert: []string{"C08.arrival-order-kept", "C08.every-output-forwarded-once"}},
			{Pkg: "components", Fn: "VxH08join", Params: p("preempt", 3), MustReach: []string{"ran"}, MustAssert: []string{"C08.arrival-order-kept"}},
		},
		Bounds: map[string]string{
			"workflow":  "FileSource(3 files; thorough also 4) -> command process -> recorder component, channel buffers of 1 (2); fan-in: two sources (3 + 2 files) into one in-port",
			"schedule":  "delay-bounded: the lowest-numbered runnable goroutine runs by default; at every scheduling point (block, channel operation, go statement) the solver may choose another runnable goroutine, at most 1 (quick) / 2 (thorough) times per run; every select with several ready cases is a symbolic choice",
			"pre-state": "the output of every later input may pre-exist (symbolic), so its task is skipped while earlier tasks still run",
			"variants":  "a process with a streaming output followed by an ordinary consumer, 3 items, regular files pre-existing at the streaming paths of later items (VxH08stream); a joined in-port fed by two carrier IPs whose sub-streams are closed in the opposite order (VxH08join)",
		},
		Outside:     []string{"more than 2 deviations from the default schedule", "more than 4 items", "task durations are not modelled as times: only the order of completion matters"},
		Assumptions: append(append([]string{}, envAssumptions...), commonAssumptions[0], commonAssumptions[3], "Go channels deliver per-sender FIFO (interpreter channel semantics)"),
		Stubs:       []string{"os.*, exec.Command, ioutil.*, json, time.Now, log; Go channels/select/mutex as interpreter objects"}})
}

func init() {
	ma := []string{"C17.run-completes", "C17.consumer-output-present", "C17.no-file-no-fifo-no-tempdir-left", "C17.consumer-received-producers-bytes", "C17.one-consumer-task-per-streamed-item"}
	hs := []H{
		{Pkg: "scipipe", Fn: "VxH17", Params: p("n", 2, "shape", 0, "preempt", 1), MustReach: []string{"ran"}, MustAssert: ma},
		{Pkg: "scipipe", Fn: "VxH17", Params: p("n", 1, "shape", 1, "preempt", 0, "dirExists", 1), MustReach: []string{"ran"}, MustAssert: ma},
		{Pkg: "scipipe", Fn: "VxH17", Params: p("n", 1, "shape", 1, "preempt", 0, "dirExists", 0), MustReach: []string{"ran"}, MustAssert: ma},
		{Pkg: "scipipe", Fn: "VxH17", Params: p("n", 1, "shape", 2, "preempt", 0, "dirExists", 0), MustReach: []string{"ran"}, MustAssert: ma},
		{Pkg: "scipipe", Fn: "VxH17", Params: p("n", 2, "shape", 3, "preempt", 0), MustReach: []string{"ran"}, MustAssert: ma},
		{Pkg: "scipipe", Fn: "VxH17", Params: p("n", 2, "shape", 4, "preempt", 0), MustReach: []string{"ran"}, MustAssert: append([]string{"C04.ordinary-output-of-streaming-task-delivered"}, ma...)},
		{Pkg: "scipipe", Fn: "VxH17", Params: p("n", 1, "shape", 5, "preempt", 0), MustReach: []string{"ran"}, MustAssert: append([]string{"C04.ordinary-output-of-streaming-task-delivered"}, ma...)},
		{Pkg: "scipipe", Fn: "VxH17", Params: p("n", 2, "shape", 6, "preempt", 1), MustReach: []string{"ran"}, MustAssert: append([]string{"C17.preexisting-file-at-stream-path-untouched"}, ma...)},
		{Pkg: "scipipe", Fn: "VxH17rerun", MustReach: []string{"reran"}, MustAssert: []string{"C17.first-run-completes", "C17.rerun-leaves-consumer-output-untouched"}},
		{Pkg: "scipipe", Fn: "VxH17leftover", Params: p("N", 40), MustReach: []string{"reran"}, MustAssert: []string{"C03.leftover-fifo-refused"}},
	}
	th := append([]H{}, hs...)
	th[0] = H{Pkg: "scipipe", Fn: "VxH17", Params: p("n", 2, "shape", 0, "preempt", 2), MustReach: []string{"ran"}, MustAssert: ma}
	th = append(th, H{Pkg: "scipipe", Fn: "VxH17", Params: p("n", 3, "shape", 3, "preempt", 1), MustReach: []string{"ran"}, MustAssert: ma})
	regCheck(&Check{ID: "C17", Quick: hs, Thorough: th,
		Bounds: map[string]string{
			"workflow": "producer with a streaming out-port ({os:s}) fed by 1..3 parameter values -> one consumer per streaming port; variants: plain / ../ / absolute stream path (directory existing or not), two streaming ports with their own consumers, streaming + ordinary output on one process",
			"slots":    "maxConcurrentTasks = 4n (the property's own precondition max >= 2n)",
			"FIFO":     "a FIFO writer command and a FIFO reader command wait for each other; the reader receives the identity of the writer's invocation (payload sizes and partial reads are outside the model)",
			"schedule": "delay-bounded, 0..2 deviations chosen by the solver",
			"history":  "complete run then run again; run killed at a symbolic point with the FIFO left behind, temp dirs removed, run again",
		},
		Outside:     []string{"byte-exact transport through the kernel pipe (payloads below/above the pipe buffer)", "several consumers on one streaming port"},
		Assumptions: append(append([]string{}, envAssumptions...), commonAssumptions[0], commonAssumptions[3]),
		Stubs:       []string{"mkfifo / rm through the command model; os.Remove; FIFO rendezvous in the command model"}})
	// C03: add the streaming leftover clause; C04: streaming task with an ordinary output
	h03tag := H{Pkg: "components", Fn: "VxH03tag", Params: p("N", 70), MustReach: []string{"reran"}, MustAssert: []string{"C03.tag.restart-completes", "C03.tag.component-output-complete"}}
	checks["C03"].Quick = append(checks["C03"].Quick, hs[7], h03tag)
	checks["C03"].Thorough = append(checks["C03"].Thorough, hs[7], h03tag)
	checks["C04"].Quick = append(checks["C04"].Quick, hs[5])
	checks["C04"].Thorough = append(checks["C04"].Thorough, hs[5])
}

func init() {
	q := []H{
		{Pkg: "components", Fn: "VxH19comb", Params: p("ports", 2, "file", 1, "bufsize", 1), MustReach: []string{"ran"}, MustAssert: []string{"C19.comb.cartesian-product-aligned-each-once"}},
		{Pkg: "components", Fn: "VxH19comb", Params: p("ports", 2, "file", 0, "bufsize", 1), MustReach: []string{"ran"}, MustAssert: []string{"C19.comb.cartesian-product-aligned-each-once"}},
		{Pkg: "components", Fn: "VxH19comb", Params: p("ports", 3, "file", 1, "bufsize", 4), MustReach: []string{"ran"}, MustAssert: []string{"C19.comb.cartesian-product-aligned-each-once"}},
		{Pkg: "components", Fn: "VxH19comb", Params: p("ports", 3, "file", 0, "bufsize", 4), MustReach: []string{"ran"}, MustAssert: []string{"C19.comb.cartesian-product-aligned-each-once"}},
		{Pkg: "components", Fn: "VxH19joint", Params: p("file", 1), MustReach: []string{"ran"}, MustAssert: []string{"C19.joint.run-returns", "C19.joint.every-combination-processed"}},
		{Pkg: "components", Fn: "VxH19joint", Params: p("file", 0), MustReach: []string{"ran"}, MustAssert: []string{"C19.joint.run-returns", "C19.joint.every-combination-processed"}},
		{Pkg: "components", Fn: "VxH19sel", Params: p("n", 2), MustReach: []string{"ran"}, MustAssert: []string{"C19.sel.exactly-the-passing-tuples-in-order"}},
		{Pkg: "components", Fn: "VxH19split", Params: p("n", 0), MustReach: []string{"ran"}, MustAssert: []string{"C19.split.parts-concatenate-to-input", "C19.split.no-temp-dir-left"}},
		{Pkg: "components", Fn: "VxH19split", Params: p("n", 3), MustReach: []string{"ran"}, MustAssert: []string{"C19.split.parts-concatenate-to-input", "C19.split.no-part-longer-than-limit"}},
		{Pkg: "components", Fn: "VxH19split", Params: p("n", 4), MustReach: []string{"ran"}, MustAssert: []string{"C19.split.parts-concatenate-to-input", "C19.split.no-part-longer-than-limit"}},
		{Pkg: "components", Fn: "VxH19concat", Params: p("n", 0), MustReach: []string{"ran"}, MustAssert: []string{"C19.concat.every-input-once-newline-terminated"}},
		{Pkg: "components", Fn: "VxH19concat", Params: p("n", 3), MustReach: []string{"ran"}, MustAssert: []string{"C19.concat.every-input-once-newline-terminated", "C19.concat.arrival-order"}},
		{Pkg: "components", Fn: "VxH19cmd", Params: p("n", 0), MustReach: []string{"ran"}, MustAssert: []string{"C19.src.command-every-line-once"}},
		{Pkg: "components", Fn: "VxH19cmd", Params: p("n", 2), MustReach: []string{"ran"}, MustAssert: []string{"C19.src.command-every-line-once", "C19.src.command-lines-in-order"}},
		{Pkg: "components", Fn: "VxH19group", Params: p("n", 3), MustReach: []string{"ran"}, MustAssert: []string{"C19.concat.untagged-inputs-in-main-output", "C19.concat.tagged-inputs-in-tag-output"}},
		{Pkg: "components", Fn: "VxH19src", MustReach: []string{"ran"}, MustAssert: []string{"C19.src.globber-matching-files-in-order", "C19.src.reader-lines-in-order"}},
	}
	th := append([]H{}, q...)
	th = append(th, H{Pkg: "components", Fn: "VxH19sel", Params: p("n", 3), MustReach: []string{"ran"}, MustAssert: []string{"C19.sel.exactly-the-passing-tuples-in-order"}},
		H{Pkg: "components", Fn: "VxH19split", Params: p("n", 5), MustReach: []string{"ran"}, MustAssert: []string{"C19.split.parts-concatenate-to-input"}})
	regCheck(&Check{ID: "C19", Quick: q, Thorough: th,
		Bounds: map[string]string{
			"combinators": "both out-ports consumed in lock-step by one downstream process with 1..3 x 1..3 rows and buffers of 1 (more rows than the buffers hold); and FileCombinator and ParamCombinator, 2 or 3 ports, every combination of stream lengths 0..2 per port, symbolic map iteration order in Run and combine; ports fed by independent sources (buffer 1 for 2 ports; buffer 4 >= stream length for 3 ports)",
			"selector":    "IPSelectorSync with 2 ports and 2 (thorough 3) aligned tuples, every pattern of predicate outcomes",
			"splitter":    "files of 0, 3, 4 (thorough 5) lines with symbolic content of <= 2 bytes, LinesPerSplit symbolic in 1..3 (exact multiples and empty file included)",
			"concatenator": "0 and 3 input files with symbolic content of <= 2 bytes",
			"sources":     "FileGlobber with two patterns over a generated directory, FileToParamsReader with symbolic lines; FileSource and ParamSource feed all the other harnesses",
		},
		Outside:     []string{"4 ports", "streams longer than 2 on combinators", "lines longer than the scanner buffer (the scanner model has no buffer limit)", "glob syntax beyond what filepath.Match accepts", "CommandToParams (arbitrary shell output is outside the command model)", "Concatenator group-by-tag files"},
		Assumptions: append(append([]string{}, envAssumptions...), commonAssumptions[0], commonAssumptions[3], "bufio.Scanner is modelled as a reader of whole lines of the model file"),
		Stubs:       []string{"os.Open/Create, (*os.File).Write/WriteString, bufio.Scanner, ioutil.ReadFile, filepath.Glob, sync.WaitGroup"}})
}

func init() {
	tcBounds := map[string]string{
		"threads":    "bounded composition: N = 2 tasks of symbolic kind (normal / skipped because its output exists / streaming output) and symbolic core count 1..max, plus N = 3 with pinned kinds (C06 quick) and N = 3 with all kinds (C06 thorough); inductive variant (no step bound): N = 2..3 quick, 2..5 thorough",
		"slots":      "maxConcurrentTasks symbolic in 1..M (quick M=3, thorough M=3)",
		"schedule":   "one solver variable per step choosing the thread that moves, N x (longest thread) steps: every interleaving of the token-by-token acquisition is covered",
		"thread ops": "extracted on this run from the real Task.Execute / IncConcurrentTasks / DecConcurrentTasks for every (kind, cores)",
		"second method": "n real tasks as goroutines with real blocking channel/mutex semantics under delay-bounded scheduling (VxH06run)",
		"whole workflows": "real Workflow.Run with rendezvous commands (each waits until k have started): k = 2..3 (4) tasks of one process x 1..2 cores on 2..4 slots, optionally beside a streaming pair, host CPU count symbolic in 1..64 (VxH06over: tasks that do not fit must block, tasks that fit must complete); k = 2..3 (4) tasks of one process with port buffers 1..3 (VxH07proc); Go-function tasks with a rendezvous inside (VxH07go); re-run of a workflow with a FileSplitter beside a task that needs every slot (VxH07rerun); <= 1 (2) schedule deviations",
	}
	as := append(append([]string{}, envAssumptions...), commonAssumptions[0], commonAssumptions[3],
		"a buffered send blocks iff the channel is full, a receive blocks iff it is empty, sync.Mutex is mutual exclusion; a thread that is enabled eventually runs (fairness of the Go scheduler)",
		"the control flow of a task does not depend on values read from the slot channel (checked: the extraction must be a single path)")
	regCheck(&Check{ID: "C06",
		Quick: []H{
			{Pkg: "scipipe", Fn: "VxTcThread", Params: p("kind", 0, "cores", 2, "max", 3), MustReach: []string{"traced"}, MustAssert: []string{"C06.capacity-is-maxConcurrentTasks"}},
			{Pkg: "scipipe", Fn: "VxH06run", Params: p("n", 2, "max", 2, "preempt", 2), MustReach: []string{"ran"}, MustAssert: []string{"C06.all-slots-returned"}},
			{Pkg: "scipipe", Fn: "VxH06over", Params: p("k", 2, "stream", 0, "preempt", 1), MustReach: []string{"ran"}, MustAssert: []string{"C06.tasks-that-do-not-fit-never-run-together"}},
			{Pkg: "scipipe", Fn: "VxH06over", Params: p("k", 3, "stream", 0, "preempt", 0), MustReach: []string{"ran"}, MustAssert: []string{"C06.tasks-that-do-not-fit-never-run-together"}},
			{Pkg: "scipipe", Fn: "VxH06over", Params: p("k", 3, "stream", 1, "preempt", 0), MustReach: []string{"ran"}, MustAssert: []string{"C06.tasks-that-do-not-fit-never-run-together"}},
		},
		Thorough: []H{
			{Pkg: "scipipe", Fn: "VxTcThread", Params: p("kind", 0, "cores", 2, "max", 3), MustReach: []string{"traced"}, MustAssert: []string{"C06.capacity-is-maxConcurrentTasks"}},
			{Pkg: "scipipe", Fn: "VxH06run", Params: p("n", 3, "max", 3, "preempt", 2), MustReach: []string{"ran"}, MustAssert: []string{"C06.all-slots-returned"}},
			{Pkg: "scipipe", Fn: "VxH06over", Params: p("k", 2, "stream", 0, "preempt", 2), MustReach: []string{"ran"}, MustAssert: []string{"C06.tasks-that-do-not-fit-never-run-together"}},
			{Pkg: "scipipe", Fn: "VxH06over", Params: p("k", 3, "stream", 0, "preempt", 2), MustReach: []string{"ran"}, MustAssert: []string{"C06.tasks-that-do-not-fit-never-run-together"}},
			{Pkg: "scipipe", Fn: "VxH06over", Params: p("k", 3, "stream", 1, "preempt", 1), MustReach: []string{"ran"}, MustAssert: []string{"C06.tasks-that-do-not-fit-never-run-together"}},
			{Pkg: "scipipe", Fn: "VxH06over", Params: p("k", 4, "stream", 1, "preempt", 0), MustReach: []string{"ran"}, MustAssert: []string{"C06.tasks-that-do-not-fit-never-run-together"}},
			{Pkg: "scipipe", Fn: "VxH06over", Params: p("k", 2, "stream", 1, "preempt", 1), MustReach: []string{"ran"}, MustAssert: []string{"C06.tasks-that-do-not-fit-never-run-together"}},
		},
		TCQuick: [2]int{2, 3}, TCThorough: [2]int{3, 3}, TCInductN: 3, TCInductNThorough: 5,
		Bounds: tcBounds, Outside: []string{"more than 3 concurrent tasks, more than 3 slots in the bounded model checking"}, Assumptions: as,
		Stubs: []string{"slot channel and slot mutex in trace mode (operations recorded), command model marks B/E"}})
	regCheck(&Check{ID: "C07",
		Quick: []H{
			{Pkg: "scipipe", Fn: "VxH07oversize", MustReach: []string{"ran"}, MustAssert: []string{"C07.oversize-rejected-not-hanging", "C07.fitting-cores-run"}},
			{Pkg: "scipipe", Fn: "VxH06run", Params: p("n", 2, "max", 2, "preempt", 2), MustReach: []string{"ran"}, MustAssert: []string{"C07.no-deadlock"}},
			{Pkg: "scipipe", Fn: "VxH07proc", Params: p("k", 2, "preempt", 1), MustReach: []string{"ran"}, MustAssert: []string{"C07.k-fitting-tasks-of-one-process-run-simultaneously"}},
			{Pkg: "scipipe", Fn: "VxH07proc", Params: p("k", 3, "preempt", 0), MustReach: []string{"ran"}, MustAssert: []string{"C07.k-fitting-tasks-of-one-process-run-simultaneously"}},
			{Pkg: "components", Fn: "VxH07rerun", Params: p("preempt", 1), MustReach: []string{"ran"}, MustAssert: []string{"C07.rerun.tasks-waiting-for-slots-run"}},
			{Pkg: "scipipe", Fn: "VxH07go", Params: p("k", 2, "preempt", 1), MustReach: []string{"ran"}, MustAssert: []string{"C07.k-fitting-go-tasks-run-simultaneously"}},
			{Pkg: "scipipe", Fn: "VxH07go", Params: p("k", 3, "preempt", 0), MustReach: []string{"ran"}, MustAssert: []string{"C07.k-fitting-go-tasks-run-simultaneously"}},
			{Pkg: "scipipe", Fn: "VxH06over", Params: p("k", 2, "stream", 0, "preempt", 0), MustReach: []string{"ran"}, MustAssert: []string{"C07.k-fitting-tasks-of-one-process-run-simultaneously"}},
		},
		Thorough: []H{
			{Pkg: "scipipe", Fn: "VxH07oversize", MustReach: []string{"ran"}, MustAssert: []string{"C07.oversize-rejected-not-hanging", "C07.fitting-cores-run"}},
			{Pkg: "scipipe", Fn: "VxH06run", Params: p("n", 3, "max", 3, "preempt", 2), MustReach: []string{"ran"}, MustAssert: []string{"C07.no-deadlock"}},
			{Pkg: "scipipe", Fn: "VxH07proc", Params: p("k", 3, "preempt", 2), MustReach: []string{"ran"}, MustAssert: []string{"C07.k-fitting-tasks-of-one-process-run-simultaneously"}},
			{Pkg: "scipipe", Fn: "VxH07proc", Params: p("k", 4, "preempt", 1), MustReach: []string{"ran"}, MustAssert: []string{"C07.k-fitting-tasks-of-one-process-run-simultaneously"}},
			{Pkg: "components", Fn: "VxH07rerun", Params: p("preempt", 2), MustReach: []string{"ran"}, MustAssert: []string{"C07.rerun.tasks-waiting-for-slots-run"}},
			{Pkg: "scipipe", Fn: "VxH07go", Params: p("k", 3, "preempt", 2), MustReach: []string{"ran"}, MustAssert: []string{"C07.k-fitting-go-tasks-run-simultaneously"}},
			{Pkg: "scipipe", Fn: "VxH07go", Params: p("k", 4, "preempt", 1), MustReach: []string{"ran"}, MustAssert: []string{"C07.k-fitting-go-tasks-run-simultaneously"}},
			{Pkg: "scipipe", Fn: "VxH06over", Params: p("k", 2, "stream", 0, "preempt", 2), MustReach: []string{"ran"}, MustAssert: []string{"C07.k-fitting-tasks-of-one-process-run-simultaneously"}},
		},
		TCQuick: [2]int{2, 3}, TCThorough: [2]int{2, 3}, TCInductN: 3, TCInductNThorough: 5,
		Bounds: tcBounds, Outside: []string{"more than 3 concurrent tasks, more than 3 slots in the bounded model checking", "fairness of the Go scheduler"}, Assumptions: as,
		Stubs: []string{"slot channel and slot mutex in trace mode (operations recorded), command model marks B/E"}})
}

func init() {
	var q, th []H
	for sc := 0; sc <= 7; sc++ {
		q = append(q, H{Pkg: "components", Fn: "VxH12", Params: p("scenario", sc, "preempt", 0), MustReach: []string{"analysed"}, MustAssert: []string{"C12.scenario-runs", "C12.conflicting-pair-ordered"}})
		pre := 1
		if sc == 0 || sc == 3 || sc == 6 || sc == 7 {
			pre = 0 // the two largest traces are analysed on the default schedule only
		}
		th = append(th, H{Pkg: "components", Fn: "VxH12", Params: p("scenario", sc, "preempt", pre), MustReach: []string{"analysed"}, MustAssert: []string{"C12.scenario-runs", "C12.conflicting-pair-ordered"}})
	}
	q = append(q, H{Pkg: "scipipe", Fn: "VxSelfRace", Params: p("kind", 1), MustReach: []string{"done"}, MustAssert: []string{"selftest.race-count"}})
	q = append(q, H{Pkg: "scipipe", Fn: "VxSelfRace", Params: p("kind", 2), MustReach: []string{"done"}, MustAssert: []string{"selftest.race-count"}})
	q = append(q, H{Pkg: "scipipe", Fn: "VxSelfRace", Params: p("kind", 3), MustReach: []string{"done"}, MustAssert: []string{"selftest.race-count"}})
	th = append(th, q[8:]...)
	regCheck(&Check{ID: "C12", Quick: q, Thorough: th,
		Bounds: map[string]string{
			"scenarios": "eight real workflows run by the real Workflow.Run: fan-out to two processes + fan-in; fan-out to MapToTags and a sibling consumer; streaming pair; multi-core tasks of two processes; FileSplitter output fanned out to two consumers; two tagged inputs merged while sibling components read the tags; three senders connected to one parameter in-port and three to one file in-port (fan-in, concurrent CloseConnection); tasks logging audit lines while others log warnings (every logger holds its own mutex around a write to its sink; files are synchronised by the kernel, a bufio.Writer is plain memory)",
			"trace":     "every load / store through a pointer, every map read / write and every JSON marshal traversal, per goroutine, plus every channel send / receive / close, mutex lock / unlock, go statement, WaitGroup event (1 100 - 3 900 events per run)",
			"query":     "for every pair of conflicting accesses (same location, different goroutines, one a write, at least one in library code; 3 instances per pair of code sites): is there a total order of the synchronisation events consistent with program order, channel matching and capacity, recorded critical-section order and goroutine creation in which the two accesses are adjacent",
			"schedule":  "quick: the default schedule of each scenario; thorough: plus every schedule with one deviation for four of the eight scenarios",
		},
		Outside: []string{
			"re-orderings that change a goroutine's control flow (the analysis keeps the recorded control flow of each goroutine; critical sections keep their recorded order)",
			"races on locations that are only reached in other schedules or other workflows",
			"stores that leave a location unchanged are not counted as writes (go/ssa emits such stores for `return x` of a named result)",
			"accesses inside modelled library calls other than json.Marshal (e.g. the standard logger)",
		},
		Assumptions: append(append([]string{}, envAssumptions...), commonAssumptions[0], commonAssumptions[3], "Go memory model: a send happens before the corresponding receive completes, the k-th receive on a channel of capacity C happens before the (k+C)-th send completes, unlock happens before the next lock, the go statement happens before the goroutine starts"),
		Stubs:       []string{"file system, command model; goroutines / channels / mutexes are interpreter objects whose operations are logged"}})
}

func finishRegistry() {
	// model validation: concrete scenarios run in the interpreter on the environment model
	// and natively (real bash, real file system); see cmd/verif/nv.go
	for id, scs := range map[string][]int{"C01": {0, 5, 6, 7, 8}, "C02": {0}, "C03": {0, 5, 6}, "C09": {0, 7, 8, 9}, "C04": {3}, "C05": {3}, "C16": {3}, "C08": {3},
		"C10": {1, 5}, "C11": {1, 6}, "C12": {1}, "C17": {2}, "C19": {4, 10}, "C18": {3}} {
		checks[id].NV = scs
	}
}
