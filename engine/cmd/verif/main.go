package main

import (
	"flag"
	"runtime/pprof"
	"fmt"
	"os"
	"path/filepath"
	"strconv"
	"strings"
	"time"

	"verif/engine/gose"
)

// repoDir is /repo; VERIF_REPO overrides it for development runs against a scratch copy.
var repoDir = func() string {
	if d := os.Getenv("VERIF_REPO"); d != "" {
		return d
	}
	return "/repo"
}()

func verifDir() string {
	if d := os.Getenv("VERIF_DIR"); d != "" {
		return d
	}
	return "/verif"
}

// loadOverlay reads harness files and maps them into the repo packages.
func loadOverlay() (map[string][]byte, error) {
	ov := map[string][]byte{}
	dirs := map[string]string{"scipipe": "", "components": "components", "cmd_scipipe": "cmd/scipipe"}
	for h, sub := range dirs {
		files, _ := filepath.Glob(filepath.Join(verifDir(), "harness", h, "zz_verif_*.go"))
		for _, f := range files {
			if strings.HasSuffix(f, "_native.go") {
				continue
			}
			b, err := os.ReadFile(f)
			if err != nil {
				return nil, err
			}
			ov[filepath.Join(repoDir, sub, filepath.Base(f))] = b
		}
	}
	return ov, nil
}

var pkgPaths = map[string]string{
	"scipipe":     "github.com/scipipe/scipipe",
	"components":  "github.com/scipipe/scipipe/components",
	"cmd_scipipe": "github.com/scipipe/scipipe/cmd/scipipe",
}

func main() {
	if len(os.Args) < 2 {
		fmt.Fprintln(os.Stderr, "usage: verif run|check|selftest ...")
		os.Exit(2)
	}
	switch os.Args[1] {
	case "run":
		cmdRun(os.Args[2:])
	case "check":
		os.Exit(cmdCheck(os.Args[2:]))
	case "replay":
		os.Exit(cmdReplay(os.Args[2:]))
	case "nv":
		os.Exit(cmdNV(os.Args[2:]))
	case "selftest":
		os.Exit(cmdSelftest(os.Args[2:]))
	default:
		fmt.Fprintln(os.Stderr, "unknown command", os.Args[1])
		os.Exit(2)
	}
}

type paramFlag map[string]int64

func (p paramFlag) String() string { return fmt.Sprint(map[string]int64(p)) }
func (p paramFlag) Set(s string) error {
	kv := strings.SplitN(s, "=", 2)
	if len(kv) != 2 {
		return fmt.Errorf("param must be k=v")
	}
	v, err := strconv.ParseInt(kv[1], 10, 64)
	if err != nil {
		return err
	}
	p[kv[0]] = v
	return nil
}

func cmdRun(args []string) {
	fs := flag.NewFlagSet("run", flag.ExitOnError)
	pkg := fs.String("pkg", "scipipe", "harness package (scipipe|components|cmd_scipipe)")
	fn := fs.String("fn", "", "harness function")
	verbose := fs.Bool("v", false, "verbose")
	trace := fs.Bool("trace", false, "trace calls")
	workers := fs.Int("workers", 8, "workers")
	maxPaths := fs.Int("maxpaths", 0, "max paths")
	solver := fs.String("solver", "z3-new", "solver")
	timeout := fs.Int("timeout", 60000, "per-query timeout ms")
	params := paramFlag{}
	fs.Var(params, "param", "harness parameter k=v (repeatable)")
	prof := fs.String("cpuprofile", "", "write cpu profile")
	fs.Parse(args)
	if *prof != "" {
		f, _ := os.Create(*prof)
		pprof.StartCPUProfile(f)
		defer pprof.StopCPUProfile()
	}
	ov, err := loadOverlay()
	if err != nil {
		fmt.Fprintln(os.Stderr, err)
		os.Exit(2)
	}
	prog, err := gose.Load(repoDir, ov)
	if err != nil {
		fmt.Fprintln(os.Stderr, "load:", err)
		os.Exit(2)
	}
	fmt.Fprintf(os.Stderr, "loaded in %.1fs\n", prog.LoadS)
	sp := prog.Pkgs[pkgPaths[*pkg]]
	if sp == nil {
		fmt.Fprintln(os.Stderr, "no such package")
		os.Exit(2)
	}
	f := sp.Func(*fn)
	if f == nil {
		fmt.Fprintln(os.Stderr, "no such function", *fn)
		os.Exit(2)
	}
	sum := prog.Explore(f, gose.ExploreOpts{Workers: *workers, MaxPaths: *maxPaths, Verbose: *verbose, TraceCalls: *trace, Solver: *solver, TimeoutMS: *timeout, Params: params})
	fmt.Printf("harness %s: paths=%d done=%d assume-drops=%d violations=%d unsupported=%d inconclusive=%d wall=%.1fs\n",
		sum.Harness, sum.Paths, sum.Done, sum.AssumeDrops, len(sum.Violations), len(sum.Unsupported), len(sum.Inconclusive), sum.WallS)
	fmt.Printf("  queries=%d sat=%d unsat=%d unknown=%d solver=%.1fs max=%.0fms\n", sum.Stats.Queries, sum.Stats.SatN, sum.Stats.UnsatN, sum.Stats.UnknownN,
		float64(sum.Stats.SolverNS)/1e9, float64(sum.Stats.MaxQueryNS)/1e6)
	fmt.Printf("  model-cache hits=%d steps=%d maxdepth=%d merged-calls=%d merge-aborts=%d\n", sum.CacheHits, sum.Steps, sum.MaxDepth, sum.Merged, sum.MergeAborts)
	fmt.Printf("  reached=%v asserts(symbolic)=%v asserts(concrete)=%v\n", sum.Reached, sum.Asserts, sum.AssertsConc)
	if sum.RaceStats.Events > 0 {
		fmt.Printf("  race analysis: events=%d sync=%d accesses=%d candidates=%d queries=%d sat=%d unsat=%d unknown=%d solver=%.1fs\n", sum.RaceStats.Events, sum.RaceStats.SyncEvents,
			sum.RaceStats.Accesses, sum.RaceStats.Candidates, sum.RaceStats.Queries, sum.RaceStats.Sat, sum.RaceStats.Unsat, sum.RaceStats.Unknown, float64(sum.RaceSolverNS)/1e9)
		for k, r := range sum.Races {
			fmt.Printf("  RACE %s %s: %s [%s / %s] %s\n", r.Kind, r.Loc, k, r.WhatA, r.WhatB, r.Order)
		}
	}
	for i, v := range sum.Violations {
		if i > 4 {
			break
		}
		fmt.Printf("  VIOLATION %s inputs=%v\n", v.AssertID, v.Inputs)
		if *verbose {
			for _, t := range v.Trace {
				fmt.Println("     ", t)
			}
		}
	}
	seen := map[string]bool{}
	for _, u := range sum.Unsupported {
		if !seen[u] {
			fmt.Println("  UNSUPPORTED:", u)
			seen[u] = true
		}
	}
	for _, u := range sum.Inconclusive {
		if !seen[u] {
			fmt.Println("  INCONCLUSIVE:", u)
			seen[u] = true
		}
	}
	_ = time.Now
}

func loadProgram(ov map[string][]byte) (*gose.Program, error) { return gose.Load(repoDir, ov) }
