package main

import (
	"encoding/json"
	"flag"
	"fmt"
	"os"
	"os/exec"
	"path/filepath"
	"sort"
	"strings"
	"time"

	"golang.org/x/tools/go/ssa"

	"verif/engine/gose"
)

// H describes one harness exploration.
type H struct {
	Pkg        string           // scipipe | components | cmd_scipipe
	Fn         string           // harness function
	Params     map[string]int64 // readable through vxGet
	MustReach  []string         // vacuity witnesses: each must be reached on >= 1 feasible path
	MustAssert []string         // assertion ids that must be discharged at least once
	MaxPaths   int
	Native     bool // the harness can be replayed natively (pure functions, no environment model)
	Note       string
}

type Check struct {
	ID          string
	Quick       []H
	Thorough    []H
	Bounds      map[string]string
	Outside     []string
	Assumptions []string
	Stubs       []string
	TCQuick     [2]int // thread-trace composition (N threads, M max slots); 0 = none
	TCThorough  [2]int
	TCInductN   int // inductive variant for 2..N threads
	TCInductNThorough int
	NV          []int // model-validation scenarios (VxHNV) run natively and in the interpreter
}

var checks = map[string]*Check{}

func regCheck(c *Check) { checks[c.ID] = c }

type knownEntry struct {
	Kind string // "known" | "fixed"
	Prop string
	ID   string
	Text string
	SiteA, SiteB string // C12: substrings identifying the two racing sites
}

func loadKnown() []knownEntry {
	var out []knownEntry
	b, err := os.ReadFile(filepath.Join(verifDir(), "known_findings.txt"))
	if err != nil {
		return nil
	}
	for _, line := range strings.Split(string(b), "\n") {
		line = strings.TrimSpace(line)
		if line == "" || strings.HasPrefix(line, "#") {
			continue
		}
		var e knownEntry
		switch {
		case strings.HasPrefix(line, "known:"):
			e.Kind = "known"
			line = strings.TrimSpace(strings.TrimPrefix(line, "known:"))
		case strings.HasPrefix(line, "fixed:"):
			e.Kind = "fixed"
			line = strings.TrimSpace(strings.TrimPrefix(line, "fixed:"))
		default:
			continue
		}
		for _, f := range strings.Fields(line) {
			if strings.HasPrefix(f, "property=") {
				e.Prop = strings.TrimPrefix(f, "property=")
			}
			if strings.HasPrefix(f, "id=") {
				e.ID = strings.TrimPrefix(f, "id=")
			}
			if strings.HasPrefix(f, "sites=") {
				ab := strings.SplitN(strings.TrimPrefix(f, "sites="), "~", 2)
				if len(ab) == 2 {
					e.SiteA, e.SiteB = ab[0], ab[1]
				}
			}
		}
		e.Text = line
		out = append(out, e)
	}
	return out
}

type harnessReport struct {
	Harness      string                   `json:"harness"`
	Params       map[string]int64         `json:"params,omitempty"`
	Paths        int                      `json:"paths"`
	Done         int                      `json:"paths_completed"`
	AssumeDrops  int                      `json:"paths_dropped_by_assume"`
	SymPaths     int                      `json:"paths_with_symbolic_decisions"`
	Decisions    int64                    `json:"decisions"`
	MaxDepth     int                      `json:"max_decision_depth"`
	Steps        int64                    `json:"ssa_instructions_interpreted"`
	Queries      int64                    `json:"solver_queries"`
	Sat          int64                    `json:"sat"`
	Unsat        int64                    `json:"unsat"`
	Unknown      int64                    `json:"unknown"`
	CacheHits    int                      `json:"feasibility_answers_from_model_cache"`
	Merged       int                      `json:"pure_calls_merged"`
	CrossChecked int                      `json:"assertion_queries_redecided_on_second_solver,omitempty"`
	CrossUnknown int                      `json:"assertion_queries_second_solver_timed_out,omitempty"`
	SolverS      float64                  `json:"solver_s"`
	MaxQueryMS   float64                  `json:"max_query_ms"`
	WallS        float64                  `json:"wall_s"`
	Reached      map[string]int           `json:"witnesses_reached"`
	Discharged   map[string]int           `json:"assertions_discharged_by_solver"`
	Concrete     map[string]int           `json:"assertions_true_on_concrete_values"`
	Violations   int                      `json:"violations"`
	Known        []string                 `json:"known_findings_witnessed,omitempty"`
	Truncated    bool                     `json:"truncated,omitempty"`
	NativeOK     int                      `json:"native_replays_agreeing"`
	NativeBad    int                      `json:"native_replays_disagreeing"`
	Samples      []map[string]interface{} `json:"sample_paths,omitempty"`
	Race         map[string]interface{}   `json:"race_analysis,omitempty"`
}

type checkRun struct {
	check     *Check
	tier      string
	prog      *gose.Program
	overlay   map[string][]byte
	known     []knownEntry
	scratch   string
	nativeBin map[string]string
	reports   []harnessReport
	funcs     map[*ssa.Function]bool
	problems  []string // inconclusive / broken reasons (exit 2)
	violLines []string
	knownLines []string
	knownSeen  map[string]bool
	nvDone     []string
	nviol     int
	traces    int
	seed      int64
	solver    string
	cross     string
	verbose   bool
}

func cmdCheck(args []string) int {
	fs := flag.NewFlagSet("check", flag.ExitOnError)
	tier := fs.String("tier", "quick", "quick|thorough")
	verbose := fs.Bool("v", false, "verbose")
	solver := fs.String("solver", "z3-new", "primary solver")
	cross := fs.String("cross", "", "second solver for assertion queries (default: thorough tier uses cvc5-oneshot)")
	only := fs.String("only", "", "run only the named harness function")
	noNative := fs.Bool("no-native", false, "skip native replays / model validation")
	if len(args) < 1 {
		fmt.Fprintln(os.Stderr, "usage: verif check <ID> [--tier quick|thorough]")
		return 2
	}
	id := args[0]
	fs.Parse(args[1:])
	if t := os.Getenv("VERIF_TIER"); t != "" && !flagSet(fs, "tier") {
		*tier = t
	}
	finishRegistry()
	ck := checks[id]
	if ck == nil {
		fmt.Fprintln(os.Stderr, "unknown check", id)
		return 2
	}
	t0 := time.Now()
	var seed int64
	fmt.Sscan(os.Getenv("VERIF_SEED"), &seed)
	ov, err := loadOverlay()
	if err != nil {
		fmt.Fprintln(os.Stderr, err)
		return 2
	}
	prog, err := gose.Load(repoDir, ov)
	if err != nil {
		fmt.Fprintln(os.Stderr, "cannot load /repo with harness overlay:", err)
		writeEvidenceBroken(id, *tier, seed, "load failed: "+err.Error(), time.Since(t0).Seconds())
		return 2
	}
	cr := &checkRun{check: ck, tier: *tier, prog: prog, overlay: ov, known: loadKnown(), nativeBin: map[string]string{},
		funcs: map[*ssa.Function]bool{}, seed: seed, solver: *solver, cross: *cross, verbose: *verbose}
	if cr.cross == "" && *tier == "thorough" {
		cr.cross = "cvc5-oneshot"
	}
	cr.scratch, _ = os.MkdirTemp("", "verif."+id+".")
	defer os.RemoveAll(cr.scratch)
	hs := ck.Quick
	if *tier == "thorough" && len(ck.Thorough) > 0 {
		hs = ck.Thorough
	}
	for _, h := range hs {
		if *only != "" && h.Fn != *only {
			continue
		}
		cr.runHarness(h, !*noNative)
	}
	if len(ck.NV) > 0 && *only == "" && !*noNative {
		cr.modelValidation(ck.NV)
	}
	tcCfg := ck.TCQuick
	if *tier == "thorough" && ck.TCThorough[0] > 0 {
		tcCfg = ck.TCThorough
	}
	if tcCfg[0] > 0 && *only == "" {
		cr.runTC(id, tcCfg[0], tcCfg[1])
	}
	wall := time.Since(t0).Seconds()
	cr.writeEvidence(wall)
	for _, l := range cr.knownLines {
		fmt.Println(l)
	}
	for _, l := range cr.violLines {
		fmt.Println(l)
	}
	if cr.nviol > 0 {
		fmt.Printf("check %s (%s): %d violation(s), %.1fs\n", id, *tier, cr.nviol, wall)
		return 1
	}
	if len(cr.problems) > 0 {
		seen := map[string]bool{}
		for _, p := range cr.problems {
			if !seen[p] {
				fmt.Println("INCONCLUSIVE:", p)
				seen[p] = true
			}
		}
		fmt.Printf("check %s (%s): inconclusive, %.1fs\n", id, *tier, wall)
		return 2
	}
	fmt.Printf("check %s (%s): property held on everything explored, %.1fs\n", id, *tier, wall)
	return 0
}

func flagSet(fs *flag.FlagSet, name string) bool {
	set := false
	fs.Visit(func(f *flag.Flag) {
		if f.Name == name {
			set = true
		}
	})
	return set
}

func (cr *checkRun) knownFor(id string) *knownEntry {
	for i := range cr.known {
		if cr.known[i].ID == id && cr.known[i].Prop == cr.check.ID {
			return &cr.known[i]
		}
	}
	// the same listed defect seen from a harness that another property shares
	for i := range cr.known {
		if cr.known[i].ID == id && cr.known[i].Kind == "known" {
			e := cr.known[i]
			e.Text = "property=" + cr.check.ID + " (listed under property=" + e.Prop + ") " + strings.TrimPrefix(e.Text, "property="+e.Prop+" ")
			return &e
		}
	}
	return nil
}

func (cr *checkRun) runHarness(h H, native bool) {
	sp := cr.prog.Pkgs[pkgPaths[h.Pkg]]
	if sp == nil {
		cr.problems = append(cr.problems, "no package "+h.Pkg)
		return
	}
	fn := sp.Func(h.Fn)
	if fn == nil {
		msg := "no harness function " + h.Fn
		if len(cr.prog.Dropped) > 0 {
			msg += " (harness files that do not compile against this tree were left out: " + strings.Join(cr.prog.Dropped, ", ") + ")"
		}
		cr.problems = append(cr.problems, msg)
		return
	}
	opts := gose.ExploreOpts{Workers: 16, MaxPaths: h.MaxPaths, Solver: cr.solver, Params: h.Params, Verbose: cr.verbose, CrossSolver: cr.cross, SampleModels: 3}
	sum := cr.prog.Explore(fn, opts)
	rep := harnessReport{Harness: h.Pkg + "." + h.Fn, Params: h.Params, Paths: sum.Paths, Done: sum.Done, AssumeDrops: sum.AssumeDrops,
		SymPaths: sum.SymPaths, Decisions: sum.Decisions, MaxDepth: sum.MaxDepth, Steps: sum.Steps,
		Queries: sum.Stats.Queries, Sat: sum.Stats.SatN, Unsat: sum.Stats.UnsatN, Unknown: sum.Stats.UnknownN, CacheHits: sum.CacheHits, Merged: sum.Merged, CrossChecked: sum.CrossN, CrossUnknown: sum.CrossUnknown,
		SolverS: float64(sum.Stats.SolverNS) / 1e9, MaxQueryMS: float64(sum.Stats.MaxQueryNS) / 1e6, WallS: sum.WallS,
		Reached: sum.Reached, Discharged: sum.Asserts, Concrete: sum.AssertsConc, Violations: len(sum.Violations), Truncated: sum.Truncated,
		Samples: sum.SamplePaths}
	for f := range sum.Funcs {
		cr.funcs[f] = true
	}
	if sum.RaceStats.Events > 0 {
		sum.Asserts["C12.conflicting-pair-ordered"] += sum.RaceStats.Unsat
	}
	for _, u := range uniq(sum.Unsupported) {
		cr.problems = append(cr.problems, h.Fn+": "+u)
	}
	for _, u := range uniq(sum.Inconclusive) {
		cr.problems = append(cr.problems, h.Fn+": "+u)
	}
	if sum.Truncated {
		cr.problems = append(cr.problems, h.Fn+": exploration truncated (path / time limit) before the frontier was empty")
	}
	// vacuity guards
	if len(sum.Violations) == 0 && len(sum.Unsupported) == 0 {
		for _, r := range h.MustReach {
			if sum.Reached[r] == 0 {
				cr.problems = append(cr.problems, fmt.Sprintf("%s: vacuity witness %q was not reached on any feasible path", h.Fn, r))
			}
		}
		for _, a := range h.MustAssert {
			if sum.Asserts[a]+sum.AssertsConc[a] == 0 {
				cr.problems = append(cr.problems, fmt.Sprintf("%s: assertion %q was never evaluated", h.Fn, a))
			}
		}
	}
	// data races decided by the predictive analysis (C12)
	if sum.RaceStats.Events > 0 {
		rep.Race = map[string]interface{}{"events": sum.RaceStats.Events, "sync_events": sum.RaceStats.SyncEvents, "heap_accesses": sum.RaceStats.Accesses,
			"candidate_pairs": sum.RaceStats.Candidates, "queries": sum.RaceStats.Queries, "sat": sum.RaceStats.Sat, "unsat": sum.RaceStats.Unsat,
			"unknown": sum.RaceStats.Unknown, "solver_s": float64(sum.RaceSolverNS) / 1e9}
		rep.Queries += int64(sum.RaceStats.Queries)
		rep.Sat += int64(sum.RaceStats.Sat)
		rep.Unsat += int64(sum.RaceStats.Unsat)
		rep.SolverS += float64(sum.RaceSolverNS) / 1e9
		var keys []string
		for k := range sum.Races {
			keys = append(keys, k)
		}
		sort.Strings(keys)
		for _, k := range keys {
			rr := sum.Races[k]
			var ke *knownEntry
			for i := range cr.known {
				e := &cr.known[i]
				if e.Prop != cr.check.ID || e.SiteA == "" {
					continue
				}
				m1 := strings.Contains(rr.SiteA, e.SiteA) && siteAny(rr.SiteB, e.SiteB)
				m2 := strings.Contains(rr.SiteB, e.SiteA) && siteAny(rr.SiteA, e.SiteB)
				if m1 || m2 {
					ke = e
					break
				}
			}
			desc := fmt.Sprintf("%s race on a %s: [%s] (%s) vs [%s] (%s); %s", rr.Kind, rr.Loc, rr.SiteA, rr.WhatA, rr.SiteB, rr.WhatB, rr.Order)
			if ke != nil && ke.Kind == "known" {
				rep.Known = append(rep.Known, ke.ID+": "+k)
				if cr.knownSeen == nil {
					cr.knownSeen = map[string]bool{}
				}
				if !cr.knownSeen[ke.ID] {
					cr.knownSeen[ke.ID] = true
					cr.knownLines = append(cr.knownLines, fmt.Sprintf("KNOWN-FINDING: %s witness=%s", ke.Text, desc))
				}
				continue
			}
			cr.nviol++
			rep.Violations++
			path := cr.keepText(fmt.Sprintf("%s_%s_race_%d.txt", cr.check.ID, h.Fn, cr.nviol), fmt.Sprintf("property %s: data race found by the predictive analysis\nharness %s params %v\n%s\n", cr.check.ID, h.Fn, h.Params, desc))
			cr.violLines = append(cr.violLines, fmt.Sprintf("VIOLATION property=%s replay=%s", cr.check.ID, path))
		}
	}
	// known-finding witnesses
	for id, kv := range sum.Known {
		ke := cr.knownFor(id)
		plan := cr.writePlan(h, kv.Inputs, id)
		confirmed := ""
		if h.Native && native {
			ok, out := cr.nativeReplay(h, plan)
			// a known finding reproduces natively when the native run reports VXKNOWN <id>
			if strings.Contains(out, "VXKNOWN "+id) {
				confirmed = " (reproduced natively)"
				rep.NativeOK++
			} else {
				confirmed = " (NOT reproduced natively)"
				rep.NativeBad++
				cr.problems = append(cr.problems, fmt.Sprintf("%s: witness of %s does not reproduce natively (ok=%v): %s", h.Fn, id, ok, lastLines(out, 3)))
			}
		}
		if ke != nil && ke.Kind == "known" {
			if cr.knownSeen == nil {
				cr.knownSeen = map[string]bool{}
			}
			if cr.knownSeen[id] {
				rep.Known = append(rep.Known, id)
				continue
			}
			cr.knownSeen[id] = true
			cr.knownLines = append(cr.knownLines, fmt.Sprintf("KNOWN-FINDING: %s witness=%s%s", ke.Text, compactJSON(kv.Inputs), confirmed))
			rep.Known = append(rep.Known, id)
		} else {
			// not listed (or listed as fixed): this is a violation
			cr.nviol++
			cr.violLines = append(cr.violLines, fmt.Sprintf("VIOLATION property=%s replay=%s", cr.check.ID, cr.keepReplay(plan, h, id)))
		}
	}
	// violations
	seenAssert := map[string]bool{}
	for _, v := range sum.Violations {
		if seenAssert[v.AssertID] {
			continue
		}
		seenAssert[v.AssertID] = true
		plan := cr.writePlan(h, v.Inputs, v.AssertID)
		if h.Native && native {
			_, out := cr.nativeReplay(h, plan)
			if strings.Contains(out, "VXFAIL "+v.AssertID) {
				rep.NativeOK++
			} else {
				rep.NativeBad++
				cr.problems = append(cr.problems, fmt.Sprintf("%s: UNCONFIRMED counterexample for %s (native replay did not fail): %s", h.Fn, v.AssertID, lastLines(out, 3)))
				continue
			}
		}
		cr.nviol++
		cr.violLines = append(cr.violLines, fmt.Sprintf("VIOLATION property=%s replay=%s", cr.check.ID, cr.keepReplay(plan, h, v.AssertID)))
		if cr.verbose {
			fmt.Fprintf(os.Stderr, "violation %s inputs=%v trace:\n  %s\n", v.AssertID, v.Inputs, strings.Join(v.Trace, "\n  "))
		}
	}
	// model validation: replay sampled feasible paths natively; every assertion must pass there too
	if h.Native && native && len(sum.Violations) == 0 {
		for i, in := range sum.SampleInputs {
			plan := cr.writePlan(h, in, fmt.Sprintf("sample%d", i))
			ok, out := cr.nativeReplay(h, plan)
			if ok && strings.Contains(out, "VXRESULT PASS") {
				rep.NativeOK++
				cr.traces++
			} else if strings.Contains(out, "VXKNOWN") && strings.Contains(out, "VXRESULT PASS") {
				rep.NativeOK++
				cr.traces++
			} else {
				rep.NativeBad++
				cr.problems = append(cr.problems, fmt.Sprintf("%s: model validation failed: native run of a feasible symbolic path disagrees: %s", h.Fn, lastLines(out, 4)))
			}
		}
	}
	cr.reports = append(cr.reports, rep)
}

// siteAny: site contains one of the |-separated alternatives.
func siteAny(site, alts string) bool {
	for _, a := range strings.Split(alts, "|") {
		if a != "" && strings.Contains(site, a) {
			return true
		}
	}
	return false
}

func uniq(ss []string) []string {
	seen := map[string]bool{}
	var out []string
	for _, s := range ss {
		if !seen[s] {
			seen[s] = true
			out = append(out, s)
		}
	}
	return out
}

func lastLines(s string, n int) string {
	ls := strings.Split(strings.TrimSpace(s), "\n")
	if len(ls) > n {
		ls = ls[len(ls)-n:]
	}
	return strings.Join(ls, " | ")
}

func compactJSON(v interface{}) string {
	b, _ := json.Marshal(v)
	s := string(b)
	if len(s) > 300 {
		s = s[:300] + "..."
	}
	return s
}

// writePlan stores a replay plan (inputs + harness + params) in the scratch dir.
func (cr *checkRun) writePlan(h H, inputs map[string]interface{}, tag string) string {
	plan := map[string]interface{}{}
	for k, v := range inputs {
		plan[k] = v
	}
	for k, v := range h.Params {
		plan["param."+k] = v
	}
	plan["_harness"] = h.Fn
	plan["_pkg"] = h.Pkg
	plan["_property"] = cr.check.ID
	plan["_what"] = tag
	b, _ := json.MarshalIndent(plan, "", " ")
	p := filepath.Join(cr.scratch, fmt.Sprintf("plan_%s_%s.json", h.Fn, sanitize(tag)))
	os.WriteFile(p, b, 0644)
	return p
}

func sanitize(s string) string {
	return strings.Map(func(r rune) rune {
		if r >= 'a' && r <= 'z' || r >= 'A' && r <= 'Z' || r >= '0' && r <= '9' || r == '-' || r == '_' || r == '.' {
			return r
		}
		return '_'
	}, s)
}

// keepReplay copies a plan to /verif/findings so that the path printed survives the run.
func (cr *checkRun) keepReplay(plan string, h H, tag string) string {
	dir := filepath.Join(verifDir(), "findings", "run")
	os.MkdirAll(dir, 0755)
	dst := filepath.Join(dir, fmt.Sprintf("%s_%s_%s.json", cr.check.ID, h.Fn, sanitize(tag)))
	b, _ := os.ReadFile(plan)
	os.WriteFile(dst, b, 0644)
	return dst
}

var nativePkgDir = map[string]string{"scipipe": "", "components": "components", "cmd_scipipe": "cmd/scipipe"}
var nativePkgName = map[string]string{"scipipe": "scipipe", "components": "components", "cmd_scipipe": "main"}

// nativeBinary builds (once per package) a test binary of the real package plus harness
// files with native vx bodies.
func buildNative(pkg string, scratch string, prog *gose.Program) (string, error) {
	sub := nativePkgDir[pkg]
	hdir := filepath.Join(verifDir(), "harness", pkg)
	files, _ := filepath.Glob(filepath.Join(hdir, "zz_verif_*.go"))
	repl := map[string]string{}
	for _, f := range files {
		base := filepath.Base(f)
		if base == "zz_verif_vx.go" {
			continue
		}
		if strings.HasSuffix(base, "_symonly.go") {
			continue
		}
		repl[filepath.Join(repoDir, sub, base)] = f
	}
	// dispatcher test
	sp := prog.Pkgs[pkgPaths[pkg]]
	var names []string
	for name, mem := range sp.Members {
		if f, ok := mem.(*ssa.Function); ok && strings.HasPrefix(name, "VxH") && f.Signature.Params().Len() == 0 {
			names = append(names, name)
		}
	}
	sort.Strings(names)
	var sb strings.Builder
	imp, initlog := "", "InitLogError()"
	if pkg != "scipipe" {
		imp, initlog = "\t\"github.com/scipipe/scipipe\"\n", "scipipe.InitLogError()"
	}
	fmt.Fprintf(&sb, "package %s\n\nimport (\n\t\"os\"\n\t\"testing\"\n%s)\n\nfunc TestVxReplay(t *testing.T) {\n\t%s\n\tswitch os.Getenv(\"VX_HARNESS\") {\n", nativePkgName[pkg], imp, initlog)
	for _, n := range names {
		fmt.Fprintf(&sb, "\tcase %q:\n\t\t%s()\n", n, n)
	}
	sb.WriteString("\tdefault:\n\t\tt.Fatal(\"unknown harness\")\n\t}\n\tvxReplayDone()\n}\n")
	tf := filepath.Join(scratch, "zz_verif_replay_"+pkg+"_test.go")
	os.WriteFile(tf, []byte(sb.String()), 0644)
	repl[filepath.Join(repoDir, sub, "zz_verif_replay_test.go")] = tf
	ovb, _ := json.Marshal(map[string]interface{}{"Replace": repl})
	ovf := filepath.Join(scratch, "overlay_"+pkg+".json")
	os.WriteFile(ovf, ovb, 0644)
	bin := filepath.Join(scratch, "replay_"+pkg+".test")
	cmd := exec.Command("go", "test", "-c", "-vet=off", "-overlay", ovf, "-o", bin, "./"+sub)
	cmd.Dir = repoDir
	cmd.Env = append(os.Environ(), "GOFLAGS=-mod=mod", "GOPROXY=off", "GOSUMDB=off", "GOTOOLCHAIN=local")
	out, err := cmd.CombinedOutput()
	if err != nil {
		return "", fmt.Errorf("native build failed: %v\n%s", err, out)
	}
	return bin, nil
}

func (cr *checkRun) nativeReplay(h H, plan string) (bool, string) {
	bin, ok := cr.nativeBin[h.Pkg]
	if !ok {
		b, err := buildNative(h.Pkg, cr.scratch, cr.prog)
		if err != nil {
			cr.problems = append(cr.problems, err.Error())
			cr.nativeBin[h.Pkg] = ""
			return false, err.Error()
		}
		bin = b
		cr.nativeBin[h.Pkg] = b
	}
	if bin == "" {
		return false, "native binary unavailable"
	}
	wd, _ := os.MkdirTemp(cr.scratch, "run.")
	defer os.RemoveAll(wd)
	cmd := exec.Command("timeout", "120", bin, "-test.run", "^TestVxReplay$", "-test.count=1")
	cmd.Dir = wd
	cmd.Env = append(os.Environ(), "VX_PLAN="+plan, "VX_HARNESS="+h.Fn)
	out, err := cmd.CombinedOutput()
	return err == nil, string(out)
}

func cmdReplay(args []string) int {
	if len(args) < 1 {
		fmt.Fprintln(os.Stderr, "usage: verif replay <plan.json>")
		return 2
	}
	b, err := os.ReadFile(args[0])
	if err != nil {
		fmt.Fprintln(os.Stderr, err)
		return 2
	}
	var plan map[string]interface{}
	if err := json.Unmarshal(b, &plan); err != nil {
		fmt.Fprintln(os.Stderr, err)
		return 2
	}
	pkg, _ := plan["_pkg"].(string)
	fn, _ := plan["_harness"].(string)
	ov, _ := loadOverlay()
	prog, err := gose.Load(repoDir, ov)
	if err != nil {
		fmt.Fprintln(os.Stderr, err)
		return 2
	}
	scratch, _ := os.MkdirTemp("", "verif.replay.")
	defer os.RemoveAll(scratch)
	cr := &checkRun{scratch: scratch, prog: prog, nativeBin: map[string]string{}, check: &Check{ID: fmt.Sprint(plan["_property"])}}
	ok, out := cr.nativeReplay(H{Pkg: pkg, Fn: fn}, args[0])
	fmt.Print(out)
	if ok {
		return 0
	}
	return 1
}

func hashOfFuncs(cr *checkRun) []map[string]string {
	var out []map[string]string
	for f := range cr.funcs {
		if f.Syntax() == nil || f.Pkg == nil {
			continue
		}
		name := f.String()
		if strings.Contains(name, ".Vx") || strings.Contains(name, ".vx") {
			continue
		}
		out = append(out, map[string]string{"func": name, "src_sha256_8": cr.prog.FuncHash(f, cr.overlay)})
	}
	sort.Slice(out, func(i, j int) bool { return out[i]["func"] < out[j]["func"] })
	return out
}

func (cr *checkRun) writeEvidence(wall float64) {
	var states, transitions, queries, sat, unsat, unknown int64
	var solverS float64
	obligations, discharged := 0, 0
	distinct := 0
	var samples []interface{}
	for _, r := range cr.reports {
		states += r.Decisions + int64(r.Paths)
		transitions += r.Steps
		queries += r.Queries
		sat += r.Sat
		unsat += r.Unsat
		unknown += r.Unknown
		solverS += r.SolverS
		distinct += r.SymPaths
		for _, n := range r.Discharged {
			obligations += n
			discharged += n
		}
		obligations += r.Violations
		for _, s := range r.Samples {
			if len(samples) < 6 {
				s["harness"] = r.Harness
				samples = append(samples, s)
			}
		}
	}
	if len(samples) == 0 {
		samples = append(samples, map[string]interface{}{"note": "no completed symbolic path in this run"})
	}
	cov := map[string]interface{}{
		"states":                        states,
		"transitions":                   transitions,
		"traces_validated_against_impl": cr.traces,
		"samples":                       samples,
		"evaluations":                   queries,
		"distinct_nontrivial":           distinct,
		"rule": "symbolic execution of the real SSA of /repo (rebuilt on this run); a case = one feasible symbolic path, i.e. a distinct vector of solver-decided branch outcomes; non-trivial = the path contains at least one decision on a symbolic condition; evaluations = SMT queries; states = decisions + paths; transitions = SSA instructions interpreted",
		"obligations":        obligations,
		"discharged":         discharged,
		"queries":            map[string]int64{"total": queries, "sat": sat, "unsat": unsat, "unknown": unknown},
		"solver_s":           solverS,
		"solver":             cr.solver,
		"cross_solver":       cr.cross,
		"functions_encoded":  hashOfFuncs(cr),
		"bounds":             cr.check.Bounds,
		"outside_the_bounds": cr.check.Outside,
		"stubs":              cr.check.Stubs,
		"harnesses":          cr.reports,
		"inconclusive":       uniq(cr.problems),
		"known_findings":     cr.knownLines,
		"model_validation":   cr.nvDone,
		"exhaustive":         len(cr.problems) == 0,
		"ssa_load_s":         cr.prog.LoadS,
	}
	ev := map[string]interface{}{
		"property_id": cr.check.ID,
		"tier":        cr.tier,
		"seed":        cr.seed,
		"level":       "model_checking",
		"coverage":    cov,
		"assumptions": cr.check.Assumptions,
		"wall_s":      wall,
		"violations":  cr.nviol,
	}
	b, _ := json.MarshalIndent(ev, "", " ")
	os.MkdirAll(filepath.Join(verifDir(), "evidence"), 0755)
	os.WriteFile(filepath.Join(verifDir(), "evidence", cr.check.ID+".json"), b, 0644)
}

func writeEvidenceBroken(id, tier string, seed int64, why string, wall float64) {
	ev := map[string]interface{}{
		"property_id": id, "tier": tier, "seed": seed, "level": "model_checking",
		"coverage": map[string]interface{}{"states": 1, "transitions": 1, "traces_validated_against_impl": 0,
			"samples": []interface{}{map[string]string{"broken": why}}, "evaluations": 1, "distinct_nontrivial": 0, "inconclusive": []string{why}},
		"wall_s": wall, "violations": 0,
	}
	b, _ := json.MarshalIndent(ev, "", " ")
	os.MkdirAll(filepath.Join(verifDir(), "evidence"), 0755)
	os.WriteFile(filepath.Join(verifDir(), "evidence", id+".json"), b, 0644)
}
