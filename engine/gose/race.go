package gose

import (
	"fmt"
	"os"
	"sort"
	"sync"
	"strings"

	"golang.org/x/tools/go/ssa"

	"verif/engine/smt"
	"verif/engine/sym"
)

// Predictive data-race detection (C12). While a run executes, every heap access (load /
// store through a pointer, map read / write) and every synchronisation event (channel
// send / receive / close, mutex lock / unlock, go, WaitGroup) is recorded per goroutine.
// Afterwards, for each pair of conflicting accesses from different goroutines, the solver
// is asked for a total order of the synchronisation events that is consistent with
// program order, channel semantics (k-th receive after k-th send, capacity), mutual
// exclusion and goroutine creation, (critical sections keep their recorded order) and in which
// the two accesses are adjacent. A model is a schedule in which the accesses race; unsat
// means every admissible re-ordering that keeps each goroutine's recorded control flow
// separates them.

const (
	evRead = iota
	evWrite
	evSendStart
	evSendEnd
	evRecv
	evClose
	evLock
	evUnlock
	evGo
	evStart
	evWgDone
	evWgWait
)

type rEvent struct {
	id    int
	g     int
	kind  int
	loc   interface{} // *Value or *Map (accesses), *Chan, mutex / waitgroup pointer
	seq   int         // k-th send / receive on the channel
	ok    bool        // receive: value came from a send (false: channel closed)
	child int         // evGo: id of the started goroutine
	match *rEvent     // receive: the matching send-start; send-end: its send-start
	site  string
	lib   bool // the access is performed by library (non-harness) code
	what  string
}

type raceLog struct {
	events  []*rEvent
	sendN   map[*Chan]int
	recvN   map[*Chan]int
	started map[int]bool
}

func newRaceLog() *raceLog {
	return &raceLog{sendN: map[*Chan]int{}, recvN: map[*Chan]int{}, started: map[int]bool{}}
}

func (m *Machine) curSite() (string, bool) {
	g := m.cur
	if len(g.stack) == 0 {
		return "?", false
	}
	fn := g.stack[len(g.stack)-1]
	lib := !isHarnessFn(fn)
	s := shortFn(fn)
	// two levels of calling context keep apart the same accessor used by different code
	last := fn
	levels := 0
	for i := len(g.stack) - 2; i >= 0 && levels < 2; i-- {
		c := g.stack[i]
		if c != last {
			s += " <- " + shortFn(c)
			last = c
			levels++
		}
	}
	return s, lib
}

func shortFn(fn *ssa.Function) string {
	s := fn.String()
	s = strings.ReplaceAll(s, "github.com/scipipe/scipipe/", "")
	s = strings.ReplaceAll(s, "github.com/scipipe/", "")
	return s
}

func isHarnessFn(fn *ssa.Function) bool {
	for f := fn; f != nil; f = f.Parent() {
		n := f.Name()
		if strings.HasPrefix(n, "Vx") || strings.HasPrefix(n, "vx") {
			return true
		}
		if f.Signature.Recv() != nil {
			if strings.Contains(f.Signature.Recv().Type().String(), ".vx") {
				return true
			}
		}
	}
	return false
}

func (m *Machine) raceEvent(kind int, loc interface{}) *rEvent {
	r := m.race
	g := m.cur
	if !r.started[g.id] {
		r.started[g.id] = true
		r.events = append(r.events, &rEvent{id: len(r.events), g: g.id, kind: evStart})
	}
	site, lib := m.curSite()
	e := &rEvent{id: len(r.events), g: g.id, kind: kind, loc: loc, site: site, lib: lib}
	r.events = append(r.events, e)
	return e
}

func (m *Machine) logAccess(write bool, loc interface{}, what string) {
	if m.race == nil || m.cur == nil {
		return
	}
	k := evRead
	if write {
		k = evWrite
	}
	e := m.raceEvent(k, loc)
	e.what = what
}

// logDeepRead records reads of everything a value graph reaches (json.Marshal).
func (m *Machine) logDeepRead(v Value, seen map[interface{}]bool) {
	if m.race == nil {
		return
	}
	switch x := v.(type) {
	case *Value:
		if x == nil || seen[x] {
			return
		}
		seen[x] = true
		m.logAccess(false, x, "marshal")
		m.logDeepRead(*x, seen)
	case Struct:
		for i := range x {
			m.logDeepRead(x[i], seen)
		}
	case *Map:
		if x == nil || seen[x] {
			return
		}
		seen[x] = true
		m.logAccess(false, x, "marshal map")
		for i := range x.vals {
			m.logDeepRead(x.vals[i], seen)
		}
	case Slice:
		for i := range x {
			m.logDeepRead(x[i], seen)
		}
	case Iface:
		m.logDeepRead(x.V, seen)
	}
}

type RaceReport struct {
	SiteA, SiteB string
	WhatA, WhatB string
	Kind         string
	Order        string
	Loc          string
}

type RaceStats struct {
	Events, SyncEvents, Accesses int
	Candidates, Queries          int
	Sat, Unsat, Unknown          int
	SolverMS                     float64
}

// AnalyseRaces decides, for the recorded trace, which conflicting access pairs can race.
func (m *Machine) AnalyseRaces(solverKind string, st *smt.Stats) ([]RaceReport, RaceStats, []string) {
	r := m.race
	var stats RaceStats
	var problems []string
	if r == nil {
		return nil, stats, nil
	}
	stats.Events = len(r.events)
	// --- candidate pairs: same location, different goroutines, at least one write, at least
	// one side in library code; one representative (first and last occurrence) per
	// (goroutine, site, kind)
	type accKey struct {
		loc  interface{}
		g    int
		site string
		kind int
	}
	reps := map[accKey][]*rEvent{}
	byLoc := map[interface{}][]accKey{}
	for _, e := range r.events {
		if e.kind != evRead && e.kind != evWrite {
			continue
		}
		stats.Accesses++
		k := accKey{e.loc, e.g, e.site, e.kind}
		if len(reps[k]) == 0 {
			byLoc[e.loc] = append(byLoc[e.loc], k)
			reps[k] = []*rEvent{e}
		} else if len(reps[k]) == 1 {
			reps[k] = append(reps[k], e)
		} else {
			reps[k][1] = e
		}
	}
	var cands []pair
	seenSites := map[string]int{}
	for _, keys := range byLoc {
		gs := map[int]bool{}
		wr := false
		for _, k := range keys {
			gs[k.g] = true
			if k.kind == evWrite {
				wr = true
			}
		}
		if len(gs) < 2 || !wr {
			continue
		}
		for i := 0; i < len(keys); i++ {
			for j := i + 1; j < len(keys); j++ {
				ka, kb := keys[i], keys[j]
				if ka.g == kb.g || (ka.kind == evRead && kb.kind == evRead) {
					continue
				}
				for _, a := range reps[ka] {
					for _, b := range reps[kb] {
						if !a.lib && !b.lib && !m.raceAll {
							continue
						}
						sk := a.site + " | " + b.site
						if b.site < a.site {
							sk = b.site + " | " + a.site
						}
						// (the instance limit is per pair of code sites *and* kinds of access:
						// delete/delete instances must not use up the budget of len/delete)
						lk := sk + " # " + a.what + " / " + b.what
						if b.site < a.site {
							lk = sk + " # " + b.what + " / " + a.what
						}
						if seenSites[lk] >= 3 {
							continue
						}
						seenSites[lk]++
						cands = append(cands, pair{a, b})
					}
				}
			}
		}
	}
	stats.Candidates = len(cands)
	if os.Getenv("VERIF_RACE_DEBUG") == "2" {
		for _, e := range r.events {
			if (e.kind == evRead || e.kind == evWrite) && strings.HasPrefix(e.what, "map") {
				fmt.Fprintf(os.Stderr, "  acc ev%d g%d %s loc=%p lib=%v %s\n", e.id, e.g, e.what, e.loc, e.lib, e.site)
			}
		}
	}
	if len(cands) == 0 {
		return nil, stats, nil
	}
	// --- the pairs are decided in parallel shards, each with its own term context and solver
	nshard := 8
	if len(cands) < nshard {
		nshard = len(cands)
	}
	type shardOut struct {
		reports  []RaceReport
		sat, unsat, unknown, queries int
		problems []string
		syncN    int
	}
	outs := make([]shardOut, nshard)
	var wg sync.WaitGroup
	for sh := 0; sh < nshard; sh++ {
		wg.Add(1)
		go func(sh int) {
			defer wg.Done()
			var mine []pair
			for i := sh; i < len(cands); i += nshard {
				mine = append(mine, cands[i])
			}
			outs[sh] = func() shardOut {
				var o shardOut
				reports, st2, probs := decidePairs(r, mine, solverKind, st)
				o.reports, o.problems = reports, probs
				o.sat, o.unsat, o.unknown, o.queries, o.syncN = st2.Sat, st2.Unsat, st2.Unknown, st2.Queries, st2.SyncEvents
				return o
			}()
		}(sh)
	}
	wg.Wait()
	var reports []RaceReport
	seen := map[string]bool{}
	for _, o := range outs {
		for _, rr := range o.reports {
			k := rr.SiteA + " | " + rr.SiteB
			if !seen[k] {
				seen[k] = true
				reports = append(reports, rr)
			}
		}
		stats.Sat += o.sat
		stats.Unsat += o.unsat
		stats.Unknown += o.unknown
		stats.Queries += o.queries
		stats.SyncEvents = o.syncN
		problems = append(problems, o.problems...)
	}
	return reports, stats, problems
}

type pair struct{ a, b *rEvent }

// decidePairs builds the order constraints of the recorded trace and decides each pair.
func decidePairs(r *raceLog, cands []pair, solverKind string, st *smt.Stats) ([]RaceReport, RaceStats, []string) {
	var stats RaceStats
	var problems []string
	// --- order constraints over synchronisation events
	c := sym.NewCtx()
	var syncEv []*rEvent
	for _, e := range r.events {
		if e.kind != evRead && e.kind != evWrite {
			syncEv = append(syncEv, e)
		}
	}
	// order values: sync events + the two accesses fit into 2^W - 2 slots
	W := 8
	for (1<<uint(W))-4 < len(syncEv)+2 {
		W++
	}
	stats.SyncEvents = len(syncEv)
	ov := map[int]*sym.Term{}
	O := func(e *rEvent) *sym.Term {
		if t, ok := ov[e.id]; ok {
			return t
		}
		t := c.Var(fmt.Sprintf("o%d", e.id), W)
		ov[e.id] = t
		return t
	}
	lt := func(a, b *rEvent) *sym.Term { return c.Ult(O(a), O(b)) }
	var base []*sym.Term
	// program order between consecutive sync events of a goroutine
	lastOf := map[int]*rEvent{}
	for _, e := range syncEv {
		if p := lastOf[e.g]; p != nil {
			base = append(base, lt(p, e))
		}
		lastOf[e.g] = e
		base = append(base, c.Ult(O(e), c.BV(W, uint64(1<<uint(W))-2)), c.Ult(c.BV(W, 0), O(e)))
	}
	// goroutine creation
	startOf := map[int]*rEvent{}
	for _, e := range syncEv {
		if e.kind == evStart {
			startOf[e.g] = e
		}
	}
	for _, e := range syncEv {
		if e.kind == evGo {
			if s := startOf[e.child]; s != nil {
				base = append(base, lt(e, s))
			}
		}
	}
	// channels: a receive comes after the start of the send whose value it got; an
	// unbuffered send completes after its receive; with capacity c the (k+c)-th send
	// completes after the k-th receive; close after every send, before receives of "closed"
	endOf := map[*rEvent]*rEvent{}
	for _, e := range syncEv {
		if e.kind == evSendEnd && e.match != nil {
			endOf[e.match] = e
		}
	}
	type chEvs struct {
		recvs, ends []*rEvent
		closeEv     *rEvent
		closedRecv  []*rEvent
	}
	chans := map[*Chan]*chEvs{}
	for _, e := range syncEv {
		ch, ok := e.loc.(*Chan)
		if !ok || ch == nil {
			continue
		}
		ce := chans[ch]
		if ce == nil {
			ce = &chEvs{}
			chans[ch] = ce
		}
		switch e.kind {
		case evSendEnd:
			ce.ends = append(ce.ends, e)
		case evRecv:
			if e.ok {
				ce.recvs = append(ce.recvs, e)
			} else {
				ce.closedRecv = append(ce.closedRecv, e)
			}
		case evClose:
			ce.closeEv = e
		}
	}
	for ch, ce := range chans {
		var matchedEnds []*rEvent // send ends in the order their values were received
		for _, rv := range ce.recvs {
			if rv.match != nil {
				base = append(base, lt(rv.match, rv))
				if en := endOf[rv.match]; en != nil {
					matchedEnds = append(matchedEnds, en)
					if ch.cap == 0 {
						base = append(base, lt(rv, en))
					}
				}
			}
		}
		if ch.cap > 0 {
			for k, rv := range ce.recvs {
				if k+ch.cap < len(matchedEnds) {
					base = append(base, lt(rv, matchedEnds[k+ch.cap]))
				}
			}
		}
		for k := 0; k+1 < len(ce.recvs); k++ {
			base = append(base, lt(ce.recvs[k], ce.recvs[k+1]))
		}
		if ce.closeEv != nil {
			for _, rv := range ce.closedRecv {
				base = append(base, lt(ce.closeEv, rv))
			}
			for _, sd := range ce.ends {
				base = append(base, lt(sd, ce.closeEv))
			}
		}
	}
	// mutexes: critical sections do not overlap
	type cs struct{ l, u *rEvent }
	sections := map[interface{}][]cs{}
	open := map[string]*rEvent{}
	for _, e := range syncEv {
		key := fmt.Sprintf("%p/%d", e.loc, e.g)
		if e.kind == evLock {
			open[key] = e
		} else if e.kind == evUnlock {
			if l := open[key]; l != nil {
				sections[e.loc] = append(sections[e.loc], cs{l, e})
				delete(open, key)
			}
		}
	}
	// Critical sections of one mutex keep their recorded order (release happens-before the
	// next acquire). Re-ordering critical sections would be sound only together with
	// read-consistency constraints (a section that runs earlier may take another branch),
	// so it is not attempted: no alarm is raised that the recorded control flow cannot back.
	for _, secs := range sections {
		sort.Slice(secs, func(i, j int) bool { return secs[i].l.id < secs[j].l.id })
		for i := 0; i+1 < len(secs); i++ {
			if secs[i].l.g != secs[i+1].l.g {
				base = append(base, lt(secs[i].u, secs[i+1].l))
			}
		}
	}
	// wait groups: every Done recorded before a Wait returned stays before it
	for _, e := range syncEv {
		if e.kind == evWgWait {
			for _, d := range syncEv {
				if d.kind == evWgDone && d.loc == e.loc && d.id < e.id {
					base = append(base, lt(d, e))
				}
			}
		}
	}
	s, err := smt.Start(solverKind, 240e9, st)
	if err != nil {
		return nil, stats, []string{"race analysis: cannot start solver: " + err.Error()}
	}
	defer s.Close()
	for _, b := range base {
		s.Assert(b)
	}
	// neighbours of an access in its goroutine's sync sequence
	prevSync := func(a *rEvent) *rEvent {
		for i := a.id - 1; i >= 0; i-- {
			e := r.events[i]
			if e.g == a.g && e.kind != evRead && e.kind != evWrite {
				return e
			}
		}
		return nil
	}
	nextSync := func(a *rEvent) *rEvent {
		for i := a.id + 1; i < len(r.events); i++ {
			e := r.events[i]
			if e.g == a.g && e.kind != evRead && e.kind != evWrite {
				return e
			}
		}
		return nil
	}
	var reports []RaceReport
	reported := map[string]bool{}
	for _, p := range cands {
		sk := p.a.site + " | " + p.b.site
		if reported[sk] {
			continue
		}
		oa, ob := O(p.a), O(p.b)
		var q []*sym.Term
		for _, x := range []*rEvent{p.a, p.b} {
			if pr := prevSync(x); pr != nil {
				q = append(q, lt(pr, x))
			}
			if nx := nextSync(x); nx != nil {
				q = append(q, lt(x, nx))
			}
		}
		q = append(q, c.Eq(ob, c.Add(oa, c.BV(W, 1))))
		// nothing else in the slot of a or b
		for _, e := range syncEv {
			q = append(q, c.Or(c.Ult(O(e), oa), c.Ult(ob, O(e))))
		}
		// critical sections around the accesses: held locks exclude each other
		s.Push()
		for _, t := range q {
			s.Assert(t)
		}
		res := s.Check()
		stats.Queries++
		if res == smt.Unknown {
			// a time-out on a loaded machine: decide the same query once more on a fresh
			// solver process with a long time-out before giving up
			if s2, err2 := smt.Start(solverKind, 900e9, st); err2 == nil {
				for _, b := range base {
					s2.Assert(b)
				}
				for _, t := range q {
					s2.Assert(t)
				}
				res = s2.Check()
				s2.Close()
			}
		}
		switch res {
		case smt.Sat:
			stats.Sat++
			reported[sk] = true
			if os.Getenv("VERIF_RACE_DEBUG") != "" {
				names := []string{"R", "W", "SendStart", "SendEnd", "Recv", "Close", "Lock", "Unlock", "Go", "Start", "WgDone", "WgWait"}
				for _, e := range r.events {
					if (e.g == p.a.g || e.g == p.b.g) && (e.kind > evWrite || e == p.a || e == p.b) {
						fmt.Fprintf(os.Stderr, "  ev%d g%d %s child=%d loc=%p %s\n", e.id, e.g, names[e.kind], e.child, e.loc, e.site)
					}
				}
			}
			kind := "read/write"
			if p.a.kind == evWrite && p.b.kind == evWrite {
				kind = "write/write"
			}
			reports = append(reports, RaceReport{SiteA: p.a.site, SiteB: p.b.site, WhatA: p.a.what, WhatB: p.b.what, Kind: kind,
				Loc: fmt.Sprintf("%T", p.a.loc), Order: fmt.Sprintf("goroutine %d event %d adjacent to goroutine %d event %d", p.a.g, p.a.id, p.b.g, p.b.id)})
		case smt.Unsat:
			stats.Unsat++
		default:
			stats.Unknown++
			problems = append(problems, "race query: solver unknown")
		}
		s.Pop()
	}
	return reports, stats, problems
}
