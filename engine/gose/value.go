// Package gose: a symbolic interpreter for go/ssa ("Go SSA symbolic executor").
// Heap shape is concrete; bool/int/string scalars may be solver terms.
package gose

import (
	"fmt"
	"go/types"
	"sort"

	"golang.org/x/tools/go/ssa"

	"verif/engine/sym"
)

type Value = interface{}

// Concrete scalars: bool, int64 (all integer kinds), float64, string.
// Symbolic scalars: *sym.Term (Bool or BV), *sym.Str.
// Pointers: *Value. Structs: Struct. Arrays: Array. Slices: Slice. Tuples: Tuple.
type Struct []Value
type Array []Value
type Slice []Value
type Tuple []Value

// SymBytes is []byte(s) for a symbolic string s (only consumable by intrinsics and
// by conversion back to string).
type SymBytes struct {
	S   *sym.Str
	mat Slice // materialised bytes (see matBytes)
}

type Iface struct {
	T types.Type // dynamic type; nil for the nil interface
	V Value
}

type Closure struct {
	Fn  *ssa.Function
	Env []Value
}

// Ext is an opaque object of an external (modelled) type.
type Ext struct {
	Kind string
	F    map[string]Value
}

type Map struct {
	keys  []Value
	vals  []Value
	index map[interface{}]int // concrete comparable keys -> position
	nsym  int                 // number of symbolic keys
}

func NewMap() *Map { return &Map{index: map[interface{}]int{}} }

func (m *Map) Len() int {
	if m == nil {
		return 0
	}
	return len(m.keys)
}

type mapIter struct {
	m    *Map
	keys []Value
	vals []Value
	i    int
	str  Value // for range over string
	symN int   // decided length of a symbolic string being ranged over
}

// hashable reports whether v can be used as a Go map key directly (concrete scalar).
func hashable(v Value) (interface{}, bool) {
	switch x := v.(type) {
	case bool, int64, float64, string:
		return x, true
	case *Value:
		return x, true
	case *Chan:
		return x, true
	case *Ext:
		return x, true
	case Iface:
		if x.T == nil {
			return ifaceKey{}, true
		}
		if k, ok := hashable(x.V); ok {
			return ifaceKey{x.T.String(), k}, true
		}
	}
	return nil, false
}

type ifaceKey struct {
	t string
	k interface{}
}

// copyVal copies value-semantics aggregates (struct, array) deeply.
func copyVal(v Value) Value {
	switch x := v.(type) {
	case Struct:
		n := make(Struct, len(x))
		for i, f := range x {
			n[i] = copyVal(f)
		}
		return n
	case Array:
		n := make(Array, len(x))
		for i, f := range x {
			n[i] = copyVal(f)
		}
		return n
	}
	return v
}

func isInteger(t types.Type) (bits int, signed bool, ok bool) {
	b, isb := t.Underlying().(*types.Basic)
	if !isb {
		return 0, false, false
	}
	switch b.Kind() {
	case types.Int, types.UntypedInt:
		return 32, true, true
	case types.Int8:
		return 8, true, true
	case types.Int16:
		return 16, true, true
	case types.Int32, types.UntypedRune:
		return 32, true, true
	case types.Int64:
		return 64, true, true
	case types.Uint, types.Uintptr:
		return 32, false, true
	case types.Uint8:
		return 8, false, true
	case types.Uint16:
		return 16, false, true
	case types.Uint32:
		return 32, false, true
	case types.Uint64:
		return 64, false, true
	}
	return 0, false, false
}

// realBits gives the true Go width (for concrete wrap-around).
func realBits(t types.Type) int {
	b, isb := t.Underlying().(*types.Basic)
	if !isb {
		return 64
	}
	switch b.Kind() {
	case types.Int8, types.Uint8:
		return 8
	case types.Int16, types.Uint16:
		return 16
	case types.Int32, types.Uint32, types.UntypedRune:
		return 32
	}
	return 64
}

func isString(t types.Type) bool {
	b, ok := t.Underlying().(*types.Basic)
	return ok && b.Info()&types.IsString != 0
}

func isBool(t types.Type) bool {
	b, ok := t.Underlying().(*types.Basic)
	return ok && b.Info()&types.IsBoolean != 0
}

func isFloat(t types.Type) bool {
	b, ok := t.Underlying().(*types.Basic)
	return ok && b.Info()&types.IsFloat != 0
}

// zero returns the zero value of t.
func zero(t types.Type) Value {
	switch u := t.Underlying().(type) {
	case *types.Basic:
		switch {
		case u.Kind() == types.UnsafePointer:
			return (*Value)(nil)
		case u.Info()&types.IsBoolean != 0:
			return false
		case u.Info()&types.IsInteger != 0:
			return int64(0)
		case u.Info()&types.IsFloat != 0:
			return float64(0)
		case u.Info()&types.IsString != 0:
			return ""
		case u.Kind() == types.UntypedNil:
			return nil
		}
		panic(fmt.Sprintf("zero: basic %v", u))
	case *types.Pointer:
		return (*Value)(nil)
	case *types.Struct:
		s := make(Struct, u.NumFields())
		for i := range s {
			s[i] = zero(u.Field(i).Type())
		}
		return s
	case *types.Array:
		a := make(Array, u.Len())
		for i := range a {
			a[i] = zero(u.Elem())
		}
		return a
	case *types.Slice:
		return Slice(nil)
	case *types.Map:
		return (*Map)(nil)
	case *types.Chan:
		return (*Chan)(nil)
	case *types.Signature:
		return (*Closure)(nil)
	case *types.Interface:
		return Iface{}
	case *types.Tuple:
		tp := make(Tuple, u.Len())
		for i := range tp {
			tp[i] = zero(u.At(i).Type())
		}
		return tp
	}
	panic(fmt.Sprintf("zero: unsupported type %v", t))
}

func isNilValue(v Value) bool {
	switch x := v.(type) {
	case nil:
		return true
	case *Value:
		return x == nil
	case Slice:
		return x == nil
	case *Map:
		return x == nil
	case *Chan:
		return x == nil
	case *Closure:
		return x == nil
	case Iface:
		return x.T == nil
	case *Ext:
		return x == nil
	case *SymBytes:
		return x == nil
	}
	return false
}

// sortedKeys: helper for deterministic diagnostics.
func sortedKeys(m map[string]Value) []string {
	ks := make([]string, 0, len(m))
	for k := range m {
		ks = append(ks, k)
	}
	sort.Strings(ks)
	return ks
}
