package gose

import (
	"fmt"
	"go/token"
	"go/types"

	"golang.org/x/tools/go/ssa"

	"verif/engine/sym"
)

// termOf lifts a concrete scalar to a term of the symbolic width of type t.
func (m *Machine) intTerm(v Value, t types.Type) *sym.Term {
	switch x := v.(type) {
	case *sym.Term:
		return x
	case int64:
		bits, _, ok := isInteger(t)
		if !ok {
			panic(fmt.Sprintf("intTerm: type %v", t))
		}
		return m.C.BV(bits, uint64(x))
	}
	panic(fmt.Sprintf("intTerm: %T", v))
}

func (m *Machine) boolTerm(v Value) *sym.Term {
	switch x := v.(type) {
	case *sym.Term:
		return x
	case bool:
		return m.C.Bool(x)
	}
	panic(fmt.Sprintf("boolTerm: %T", v))
}

func (m *Machine) strTerm(v Value) *sym.Str {
	switch x := v.(type) {
	case *sym.Str:
		return x
	case string:
		return m.C.StrConst(x)
	}
	panic(fmt.Sprintf("strTerm: %T", v))
}

func isSym(v Value) bool {
	switch v.(type) {
	case *sym.Term, *sym.Str:
		return true
	}
	return false
}

func (m *Machine) binop(op token.Token, t types.Type, x, y Value, yt types.Type) Value {
	// strings
	if isString(t) {
		xs, xok := x.(string)
		ys, yok := y.(string)
		if xok && yok {
			switch op {
			case token.ADD:
				return xs + ys
			case token.EQL:
				return xs == ys
			case token.NEQ:
				return xs != ys
			case token.LSS:
				return xs < ys
			case token.LEQ:
				return xs <= ys
			case token.GTR:
				return xs > ys
			case token.GEQ:
				return xs >= ys
			}
		}
		a, b := m.strTerm(x), m.strTerm(y)
		c := m.C
		switch op {
		case token.ADD:
			return m.normScalar(c.Concat(a, b))
		case token.EQL:
			return m.normBool(c.StrEq(a, b))
		case token.NEQ:
			return m.normBool(c.Not(c.StrEq(a, b)))
		case token.LSS:
			return m.normBool(c.StrLess(a, b))
		case token.GTR:
			return m.normBool(c.StrLess(b, a))
		case token.LEQ:
			return m.normBool(c.Not(c.StrLess(b, a)))
		case token.GEQ:
			return m.normBool(c.Not(c.StrLess(a, b)))
		}
		m.unsupported("string binop %v", op)
	}
	if bits, signed, ok := isInteger(t); ok {
		xi, xok := x.(int64)
		yi, yok := y.(int64)
		if xok && yok {
			return m.intBinop(op, t, xi, yi, signed)
		}
		c := m.C
		a := m.intTerm(x, t)
		var b *sym.Term
		if op == token.SHL || op == token.SHR {
			b = m.intTerm(y, yt)
			b = c.Resize(b, bits, false)
		} else {
			b = m.intTerm(y, t)
		}
		switch op {
		case token.ADD:
			return c.Add(a, b)
		case token.SUB:
			return c.Sub(a, b)
		case token.MUL:
			return c.Mul(a, b)
		case token.AND:
			return c.BvAnd(a, b)
		case token.OR:
			return c.BvOr(a, b)
		case token.XOR:
			return c.BvXor(a, b)
		case token.AND_NOT:
			return c.BvAnd(a, c.BvXor(b, c.BV(bits, ^uint64(0))))
		case token.SHL:
			return c.Shl(a, b)
		case token.SHR:
			if !signed {
				return c.Lshr(a, b)
			}
		case token.QUO:
			if !signed {
				return c.Udiv(a, b)
			}
		case token.REM:
			if !signed {
				return c.Urem(a, b)
			}
		case token.EQL:
			return m.normBool(c.Eq(a, b))
		case token.NEQ:
			return m.normBool(c.Not(c.Eq(a, b)))
		case token.LSS:
			if signed {
				return m.normBool(c.Slt(a, b))
			}
			return m.normBool(c.Ult(a, b))
		case token.LEQ:
			if signed {
				return m.normBool(c.Sle(a, b))
			}
			return m.normBool(c.Ule(a, b))
		case token.GTR:
			if signed {
				return m.normBool(c.Slt(b, a))
			}
			return m.normBool(c.Ult(b, a))
		case token.GEQ:
			if signed {
				return m.normBool(c.Sle(b, a))
			}
			return m.normBool(c.Ule(b, a))
		}
		// signed division etc. on symbolic values: concretise
		if op == token.QUO || op == token.REM || op == token.SHR {
			xi = m.Concretize(a, signed)
			yi = m.Concretize(b, signed)
			return m.intBinop(op, t, xi, yi, signed)
		}
		m.unsupported("int binop %v (symbolic)", op)
	}
	if isBool(t) {
		switch op {
		case token.EQL:
			return m.eqValue(x, y)
		case token.NEQ:
			return m.notV(m.eqValue(x, y))
		case token.AND, token.LAND:
			return m.normBool(m.C.And(m.boolTerm(x), m.boolTerm(y)))
		case token.OR, token.LOR:
			return m.normBool(m.C.Or(m.boolTerm(x), m.boolTerm(y)))
		}
	}
	if isFloat(t) {
		xf, yf := x.(float64), y.(float64)
		switch op {
		case token.ADD:
			return xf + yf
		case token.SUB:
			return xf - yf
		case token.MUL:
			return xf * yf
		case token.QUO:
			return xf / yf
		case token.EQL:
			return xf == yf
		case token.NEQ:
			return xf != yf
		case token.LSS:
			return xf < yf
		case token.LEQ:
			return xf <= yf
		case token.GTR:
			return xf > yf
		case token.GEQ:
			return xf >= yf
		}
	}
	switch op {
	case token.EQL:
		return m.eqValue(x, y)
	case token.NEQ:
		return m.notV(m.eqValue(x, y))
	}
	m.unsupported("binop %v on %T,%T (type %v)", op, x, y, t)
	return nil
}

func (m *Machine) notV(v Value) Value {
	switch b := v.(type) {
	case bool:
		return !b
	case *sym.Term:
		return m.normBool(m.C.Not(b))
	}
	panic("notV")
}

func (m *Machine) normBool(t *sym.Term) Value {
	if t.IsConst() {
		return t.Val == 1
	}
	return t
}

func (m *Machine) intBinop(op token.Token, t types.Type, x, y int64, signed bool) Value {
	ux, uy := uint64(x), uint64(y)
	if !signed {
		bits := realBits(t)
		if bits < 64 {
			ux &= (1 << uint(bits)) - 1
			uy &= (1 << uint(bits)) - 1
		}
	}
	switch op {
	case token.ADD:
		return m.wrap(x+y, t)
	case token.SUB:
		return m.wrap(x-y, t)
	case token.MUL:
		return m.wrap(x*y, t)
	case token.QUO:
		if y == 0 {
			panic(goPanic{msg: "integer divide by zero"})
		}
		if signed {
			return m.wrap(x/y, t)
		}
		return m.wrap(int64(ux/uy), t)
	case token.REM:
		if y == 0 {
			panic(goPanic{msg: "integer divide by zero"})
		}
		if signed {
			return m.wrap(x%y, t)
		}
		return m.wrap(int64(ux%uy), t)
	case token.AND:
		return x & y
	case token.OR:
		return x | y
	case token.XOR:
		return m.wrap(x^y, t)
	case token.AND_NOT:
		return x &^ y
	case token.SHL:
		if uint64(y) >= 64 {
			return int64(0)
		}
		return m.wrap(x<<uint64(y), t)
	case token.SHR:
		if uint64(y) >= 64 {
			y = 63
		}
		if signed {
			return x >> uint64(y)
		}
		return int64(ux >> uint64(y))
	case token.EQL:
		return x == y
	case token.NEQ:
		return x != y
	case token.LSS:
		if signed {
			return x < y
		}
		return ux < uy
	case token.LEQ:
		if signed {
			return x <= y
		}
		return ux <= uy
	case token.GTR:
		if signed {
			return x > y
		}
		return ux > uy
	case token.GEQ:
		if signed {
			return x >= y
		}
		return ux >= uy
	}
	m.unsupported("int binop %v", op)
	return nil
}

// eqValue compares two values of the same static type; the result is a bool or a term.
func (m *Machine) eqValue(x, y Value) Value {
	c := m.C
	switch a := x.(type) {
	case nil:
		return isNilValue(y)
	case bool:
		switch b := y.(type) {
		case bool:
			return a == b
		case *sym.Term:
			return m.normBool(c.Eq(c.Bool(a), b))
		}
	case int64:
		switch b := y.(type) {
		case int64:
			return a == b
		case *sym.Term:
			return m.normBool(c.Eq(c.BV(b.Width, uint64(a)), b))
		}
	case float64:
		if b, ok := y.(float64); ok {
			return a == b
		}
	case string:
		switch b := y.(type) {
		case string:
			return a == b
		case *sym.Str:
			return m.normBool(c.StrEq(c.StrConst(a), b))
		}
	case *sym.Str:
		return m.normBool(c.StrEq(a, m.strTerm(y)))
	case *sym.Term:
		switch b := y.(type) {
		case *sym.Term:
			return m.normBool(c.Eq(a, b))
		case int64:
			return m.normBool(c.Eq(a, c.BV(a.Width, uint64(b))))
		case bool:
			return m.normBool(c.Eq(a, c.Bool(b)))
		}
	case *Value:
		if b, ok := y.(*Value); ok {
			return a == b
		}
		return a == nil && isNilValue(y)
	case *Map:
		if b, ok := y.(*Map); ok {
			return a == b
		}
		return a == nil && isNilValue(y)
	case *Chan:
		if b, ok := y.(*Chan); ok {
			return a == b
		}
		return a == nil && isNilValue(y)
	case *Closure:
		if b, ok := y.(*Closure); ok {
			return a == b
		}
		return a == nil && isNilValue(y)
	case Slice:
		return a == nil && isNilValue(y)
	case *Ext:
		if b, ok := y.(*Ext); ok {
			return a == b
		}
		return a == nil && isNilValue(y)
	case Iface:
		b, ok := y.(Iface)
		if !ok {
			return a.T == nil && isNilValue(y)
		}
		if a.T == nil || b.T == nil {
			return a.T == nil && b.T == nil
		}
		if !types.Identical(a.T, b.T) {
			return false
		}
		return m.eqValue(a.V, b.V)
	case Struct:
		b := y.(Struct)
		r := c.T
		for i := range a {
			e := m.eqValue(a[i], b[i])
			switch ev := e.(type) {
			case bool:
				if !ev {
					return false
				}
			case *sym.Term:
				r = c.And(r, ev)
			}
		}
		return m.normBool(r)
	case Array:
		b := y.(Array)
		r := c.T
		for i := range a {
			e := m.eqValue(a[i], b[i])
			switch ev := e.(type) {
			case bool:
				if !ev {
					return false
				}
			case *sym.Term:
				r = c.And(r, ev)
			}
		}
		return m.normBool(r)
	}
	m.unsupported("eqValue %T vs %T", x, y)
	return nil
}

func (m *Machine) convert(from, to types.Type, v Value) Value {
	c := m.C
	fb, fok := from.Underlying().(*types.Basic)
	tb, tok := to.Underlying().(*types.Basic)
	if fok && tok {
		fbits, fsigned, fint := isInteger(from)
		tbits, _, tint := isInteger(to)
		switch {
		case fint && tint:
			switch x := v.(type) {
			case int64:
				return m.wrap(x, to)
			case *sym.Term:
				_ = fbits
				return c.Resize(x, tbits, fsigned)
			}
		case fint && tb.Info()&types.IsFloat != 0:
			if x, ok := v.(int64); ok {
				return float64(x)
			}
		case fb.Info()&types.IsFloat != 0 && tint:
			if x, ok := v.(float64); ok {
				return m.wrap(int64(x), to)
			}
		case fb.Info()&types.IsFloat != 0 && tb.Info()&types.IsFloat != 0:
			return v
		case fint && tb.Info()&types.IsString != 0:
			if x, ok := v.(int64); ok {
				return string(rune(x))
			}
		case fb.Info()&types.IsString != 0 && tb.Info()&types.IsString != 0:
			return v
		case fb.Kind() == types.UnsafePointer || tb.Kind() == types.UnsafePointer:
			return v
		}
	}
	// string <-> []byte
	if isString(from) {
		if sl, ok := to.Underlying().(*types.Slice); ok {
			if eb, ok := sl.Elem().Underlying().(*types.Basic); ok && eb.Kind() == types.Uint8 {
				switch x := v.(type) {
				case string:
					r := make(Slice, len(x))
					for i := 0; i < len(x); i++ {
						r[i] = int64(x[i])
					}
					return r
				case *sym.Str:
					return &SymBytes{S: x}
				}
			}
			if eb, ok := sl.Elem().Underlying().(*types.Basic); ok && eb.Kind() == types.Int32 {
				if x, ok := v.(string); ok {
					r := Slice{}
					for _, ru := range x {
						r = append(r, int64(ru))
					}
					return r
				}
				if x, ok := v.(*sym.Str); ok {
					// symbolic strings are ASCII (every class of vxStr is): one rune per byte
					n := m.decideLen(x)
					r := make(Slice, n)
					for i := 0; i < n; i++ {
						r[i] = m.normScalar(c.Zext(x.Ch[i], 32))
					}
					return r
				}
			}
		}
	}
	if isString(to) {
		switch x := v.(type) {
		case *SymBytes:
			return x.S
		case Slice:
			// all-concrete bytes -> string; else symbolic string
			allc := true
			for _, e := range x {
				if _, ok := e.(int64); !ok {
					allc = false
				}
			}
			if allc {
				if sl, ok := from.Underlying().(*types.Slice); ok {
					if eb := sl.Elem().Underlying().(*types.Basic); eb.Kind() == types.Int32 {
						rs := make([]rune, len(x))
						for i, e := range x {
							rs[i] = rune(e.(int64))
						}
						return string(rs)
					}
				}
				b := make([]byte, len(x))
				for i, e := range x {
					b[i] = byte(e.(int64))
				}
				return string(b)
			}
			s := &sym.Str{Len: c.L(len(x)), Ch: make([]*sym.Term, len(x))}
			for i, e := range x {
				s.Ch[i] = c.Resize(m.intTerm(e, types.Typ[types.Uint8]), 8, false)
			}
			return s
		}
	}
	// pointer conversions, named types etc.
	switch to.Underlying().(type) {
	case *types.Pointer, *types.Slice, *types.Map, *types.Chan, *types.Signature, *types.Struct, *types.Array:
		return v
	}
	m.unsupported("convert %v -> %v (%T)", from, to, v)
	return nil
}

func (m *Machine) lenTerm(t *sym.Term) *sym.Term {
	// int (32 bit) -> LW
	return m.C.Extract(t, sym.LW-1, 0)
}

// idxTerm converts an int value into an LW-bit offset term plus an in-range [0, 2^15) guard.
func (m *Machine) idxTerm(v Value) (*sym.Term, *sym.Term) {
	switch x := v.(type) {
	case int64:
		if x < 0 || x >= 1<<15 {
			return m.C.L(0), m.C.F
		}
		return m.C.L(int(x)), m.C.T
	case *sym.Term:
		ok := m.C.Ult(x, m.C.BV(x.Width, 1<<15))
		return m.C.Extract(x, sym.LW-1, 0), ok
	}
	panic(fmt.Sprintf("idxTerm %T", v))
}

func (m *Machine) strIndex(s Value, idx Value) Value {
	if g, ok := s.(string); ok {
		if i, ok := idx.(int64); ok {
			if i < 0 || int(i) >= len(g) {
				panic(goPanic{msg: fmt.Sprintf("index out of range [%d] with length %d", i, len(g))})
			}
			return int64(g[i])
		}
	}
	st := m.strTerm(s)
	it, ok := m.idxTerm(idx)
	inb := m.C.And(ok, m.C.Ult(it, st.Len))
	if !m.Decide(inb) {
		panic(goPanic{msg: "index out of range (string)"})
	}
	ch := m.C.At(st, it)
	if ch.IsConst() {
		return int64(ch.Val)
	}
	return ch
}

func (m *Machine) sliceOp(fr *frame, x *ssa.Slice) Value {
	base := m.get(fr, x.X)
	var lo, hi, max Value
	if x.Low != nil {
		lo = m.get(fr, x.Low)
	}
	if x.High != nil {
		hi = m.get(fr, x.High)
	}
	if x.Max != nil {
		max = m.get(fr, x.Max)
	}
	switch b := base.(type) {
	case string, *sym.Str:
		if g, ok := b.(string); ok {
			l, lok := lo.(int64)
			h, hok := hi.(int64)
			if lo == nil {
				l, lok = 0, true
			}
			if hi == nil {
				h, hok = int64(len(g)), true
			}
			if lok && hok {
				if l < 0 || h < l || int(h) > len(g) {
					panic(goPanic{msg: fmt.Sprintf("slice bounds out of range [%d:%d] with length %d", l, h, len(g))})
				}
				return g[l:h]
			}
		}
		st := m.strTerm(b)
		c := m.C
		lt, lok := c.L(0), c.T
		if lo != nil {
			lt, lok = m.idxTerm(lo)
		}
		ht, hok := st.Len, c.T
		if hi != nil {
			ht, hok = m.idxTerm(hi)
		}
		inb := c.And(lok, hok, c.SliceOK(st, lt, ht))
		if !m.Decide(inb) {
			panic(goPanic{msg: "slice bounds out of range (string)"})
		}
		return m.normScalar(c.Slice(st, lt, ht))
	case Slice:
		l, h := int64(0), int64(len(b))
		if lo != nil {
			l = m.toInt(lo)
		}
		if hi != nil {
			h = m.toInt(hi)
		}
		mx := int64(cap(b))
		if max != nil {
			mx = m.toInt(max)
		}
		if l < 0 || h < l || h > mx || mx > int64(cap(b)) {
			panic(goPanic{msg: fmt.Sprintf("slice bounds out of range [%d:%d:%d] with capacity %d", l, h, mx, cap(b))})
		}
		if b == nil {
			return Slice(nil)
		}
		return b[l:h:mx]
	case *Value: // pointer to array
		if b == nil {
			panic(goPanic{msg: "nil pointer dereference (slice of array)"})
		}
		a := (*b).(Array)
		l, h := int64(0), int64(len(a))
		if lo != nil {
			l = m.toInt(lo)
		}
		if hi != nil {
			h = m.toInt(hi)
		}
		if l < 0 || h < l || int(h) > len(a) {
			panic(goPanic{msg: "slice bounds out of range (array)"})
		}
		return Slice(a)[l:h]
	case *SymBytes:
		if lo == nil && hi == nil {
			return b
		}
		a := m.matBytes(b)
		l, h := int64(0), int64(len(a))
		if lo != nil {
			l = m.toInt(lo)
		}
		if hi != nil {
			h = m.toInt(hi)
		}
		if l < 0 || h < l || int(h) > len(a) {
			panic(goPanic{msg: "slice bounds out of range"})
		}
		return a[l:h]
	}
	m.unsupported("slice of %T", base)
	return nil
}

var _ = ssa.BuilderMode(0)
