package gose

// State merging for pure functions with scalar results ("function summaries").
//
// A function that only computes — no stores, no map updates, no channel operations, no
// goroutines, no defers, calls only to functions of the same kind or to pure library
// models — and whose results are booleans, integers, strings (or interface values that are
// the same on every path, typically a nil error) is executed in a *merge scope* when one
// of its arguments is symbolic: the branches inside it fork locally (feasibility is
// checked under the caller's path condition plus the local one), every local path yields
// (condition, results), and the call returns the if-then-else of the results. The caller's
// path is not forked, so a character classification loop costs the sum, not the product,
// of its cases. Anything the scope cannot merge (a concretisation, an assumption, a panic,
// an unknown solver answer, too many local paths) aborts the scope and the call is
// executed the ordinary forking way — merging is an optimisation, never a change of
// semantics.

import (
	"fmt"
	"go/types"
	"os"
	"sort"
	"strings"
	"sync"

	"golang.org/x/tools/go/ssa"

	"verif/engine/smt"
	"verif/engine/sym"
)

// mergeInv is shared by all local paths of one merged call: continuations from a loop
// header are computed once per frame state and reused (the six ways a character can be
// accepted all arrive at the header in the same state).
type mergeInv struct {
	memo map[string]Value
	fn   *ssa.Function
}

type mergeScope struct {
	inv       *mergeInv
	skipHdr   *ssa.BasicBlock // the header a continuation run starts at (not merged again)
	parent    *mergeScope
	prefix    []bool
	decisions []bool
	pc        []*sym.Term
	decided   map[*sym.Term]bool
	pending   [][]bool
}

type mergeAbort struct{ why string }

const mergeMaxPaths = 96

var mergeableMemo = map[*ssa.Function]int{} // 0 unknown, 1 yes, 2 no, 3 in progress
var loopMemo = map[*ssa.Function]bool{}

// hasLoop: the function has a back edge. A call is merged at top level only if the callee
// loops (that is where forking multiplies); inside a merge scope every mergeable callee is
// merged (its forks would multiply the enclosing scope's local paths).
func hasLoop(fn *ssa.Function) bool {
	mergeableMu.Lock()
	defer mergeableMu.Unlock()
	if v, ok := loopMemo[fn]; ok {
		return v
	}
	loop := false
	for _, b := range fn.Blocks {
		for _, s := range b.Succs {
			if s.Index <= b.Index {
				loop = true
			}
		}
	}
	loopMemo[fn] = loop
	return loop
}
var mergeableMu sync.Mutex

// purePkgs: library packages whose modelled functions have no side effects.
var purePkgs = map[string]bool{"strings": true, "unicode": true, "unicode/utf8": true, "path": true, "path/filepath": true, "strconv": true, "bytes": true, "internal/bytealg": true}

func mergeableResult(t types.Type) bool {
	if isBool(t) || isString(t) {
		return true
	}
	if _, _, ok := isInteger(t); ok {
		return true
	}
	if _, ok := t.Underlying().(*types.Interface); ok {
		return true // must be identical on every local path (checked when merging)
	}
	return false
}

// mergeable: static purity check on the SSA of fn.
func mergeable(fn *ssa.Function) bool {
	mergeableMu.Lock()
	defer mergeableMu.Unlock()
	return mergeableRec(fn)
}

func mergeableRec(fn *ssa.Function) bool {
	switch mergeableMemo[fn] {
	case 1:
		return true
	case 2, 3:
		return false // (recursion: not merged)
	}
	mergeableMemo[fn] = 3
	ok := mergeableCheck(fn)
	if ok {
		mergeableMemo[fn] = 1
	} else {
		mergeableMemo[fn] = 2
	}
	return ok
}

func mergeableCheck(fn *ssa.Function) bool {
	if fn.Blocks == nil || !isScipipeFn(fn) || len(fn.FreeVars) > 0 {
		return false
	}
	if fn.Prog != nil && fn.Pos().IsValid() && strings.Contains(fn.Prog.Fset.Position(fn.Pos()).Filename, "zz_verif") {
		return false // harness code (reference functions) keeps its forking semantics
	}
	res := fn.Signature.Results()
	if res.Len() == 0 {
		return false
	}
	for i := 0; i < res.Len(); i++ {
		if !mergeableResult(res.At(i).Type()) {
			return false
		}
	}
	branches := false
	for _, b := range fn.Blocks {
		for _, ins := range b.Instrs {
			switch x := ins.(type) {
			case *ssa.DebugRef, *ssa.Phi, *ssa.Jump, *ssa.Return, *ssa.BinOp, *ssa.Convert, *ssa.ChangeType,
				*ssa.Extract, *ssa.Index, *ssa.Lookup, *ssa.Slice, *ssa.Field, *ssa.FieldAddr, *ssa.IndexAddr, *ssa.MakeSlice:
				// (MakeSlice + append: a local buffer that is only extended, never stored into)
				if l, ok := x.(*ssa.Lookup); ok {
					if _, isMap := l.X.Type().Underlying().(*types.Map); isMap {
						return false
					}
				}
			case *ssa.Range:
				if !isString(x.X.Type()) {
					return false
				}
			case *ssa.Next:
				if !x.IsString {
					return false
				}
			case *ssa.If:
				branches = true
			case *ssa.UnOp:
				if x.Op.String() == "<-" {
					return false
				}
			case *ssa.Call:
				if x.Call.IsInvoke() {
					return false
				}
				switch c := x.Call.Value.(type) {
				case *ssa.Builtin:
					if c.Name() != "len" && c.Name() != "cap" && c.Name() != "append" {
						return false
					}
				case *ssa.Function:
					if isScipipeFn(c) {
						if !mergeableRec(c) {
							return false
						}
					} else {
						if _, has := intrinsics[c.String()]; !has || !purePkgs[fnPkgPath(c)] {
							return false
						}
					}
				default:
					return false
				}
			default:
				return false
			}
		}
	}
	return branches
}

// mergedCall executes fn in a merge scope. ok=false: not merged, the caller must run the
// ordinary call.
func (m *Machine) mergedCall(fn *ssa.Function, args []Value, env []Value) (res Value, ok bool) {
	g := m.cur
	depth0, stack0 := g.depth, len(g.stack)
	steps0 := m.steps
	outer := m.merge
	inIntr := m.inIntrinsic
	defer func() {
		m.merge = outer
		if r := recover(); r != nil {
			g.depth = depth0
			if len(g.stack) > stack0 {
				g.stack = g.stack[:stack0]
			}
			m.inIntrinsic = inIntr
			if os.Getenv("VERIF_MERGE_DEBUG") != "" {
				fmt.Fprintf(os.Stderr, "merge abort in %s: %T %v\n", fn, r, r)
			}
			switch r.(type) {
			case mergeAbort, goPanic, intrinsicFallback:
				// run it the ordinary way (which reproduces the panic on its own path)
				m.MergeAborts++
				res, ok = nil, false
				return
			case pathAbort:
				if r.(pathAbort).status == "unsupported" {
					m.MergeAborts++
					res, ok = nil, false
					return
				}
			}
			panic(r)
		}
	}()
	_ = steps0
	inv := &mergeInv{memo: map[string]Value{}, fn: fn}
	var results []pathRes
	work := [][]bool{nil}
	for len(work) > 0 {
		pre := work[len(work)-1]
		work = work[:len(work)-1]
		sc := &mergeScope{inv: inv, parent: outer, prefix: pre, decided: map[*sym.Term]bool{}}
		m.merge = sc
		m.inIntrinsic = nil
		v := m.callBody(fn, args, env)
		g.depth = depth0
		results = append(results, pathRes{m.C.And(sc.pc...), v})
		work = append(work, sc.pending...)
		if len(results)+len(work) > mergeMaxPaths {
			panic(mergeAbort{"too many local paths"})
		}
	}
	m.merge = outer
	m.inIntrinsic = inIntr
	m.Merged++
	return m.mergeResults(fn, results), true
}

type pathRes struct {
	cond *sym.Term
	val  Value
}

// mergeResults folds the (condition, results) of the local paths into one value.
func (m *Machine) mergeResults(fn *ssa.Function, results []pathRes) Value {
	if len(results) == 1 {
		return results[0].val
	}
	sig := fn.Signature.Results()
	mergeComp := func(i int, get func(Value) Value) Value {
		t := sig.At(i).Type()
		last := get(results[len(results)-1].val)
		switch {
		case isBool(t):
			acc := m.boolTerm(last)
			for k := len(results) - 2; k >= 0; k-- {
				acc = m.C.Ite(results[k].cond, m.boolTerm(get(results[k].val)), acc)
			}
			return m.normBool(acc)
		case isString(t):
			acc := m.strTerm(last)
			for k := len(results) - 2; k >= 0; k-- {
				acc = m.strIte(results[k].cond, m.strTerm(get(results[k].val)), acc)
			}
			if s, ok := acc.Concrete(); ok {
				return s
			}
			return acc
		default:
			if _, _, isInt := isInteger(t); isInt {
				acc := m.intTerm(last, t)
				for k := len(results) - 2; k >= 0; k-- {
					acc = m.C.Ite(results[k].cond, m.intTerm(get(results[k].val), t), acc)
				}
				return m.normScalar(acc)
			}
			// interface (error): the same on every path
			for k := range results {
				o := get(results[k].val)
				if !(isNilValue(o) && isNilValue(last)) && !sameValue(o, last) {
					panic(mergeAbort{"non-scalar result differs between local paths"})
				}
			}
			return last
		}
	}
	if sig.Len() == 1 {
		return mergeComp(0, func(v Value) Value { return v })
	}
	out := make(Tuple, sig.Len())
	for i := range out {
		i := i
		out[i] = mergeComp(i, func(v Value) Value { return v.(Tuple)[i] })
	}
	return out
}

func (m *Machine) strIte(cond *sym.Term, a, b *sym.Str) *sym.Str {
	n := len(a.Ch)
	if len(b.Ch) > n {
		n = len(b.Ch)
	}
	r := &sym.Str{Len: m.C.Ite(cond, a.Len, b.Len), Ch: make([]*sym.Term, n)}
	z := m.C.BV(8, 0)
	for i := 0; i < n; i++ {
		x, y := z, z
		if i < len(a.Ch) {
			x = a.Ch[i]
		}
		if i < len(b.Ch) {
			y = b.Ch[i]
		}
		r.Ch[i] = m.C.Ite(cond, x, y)
	}
	return r
}

// mergeDecide: Decide inside a merge scope — fork locally, do not touch the path condition.
func (m *Machine) mergeDecide(cond *sym.Term) bool {
	sc := m.merge
	for s := sc; s != nil; s = s.parent {
		if v, ok := s.decided[cond]; ok {
			return v
		}
	}
	idx := len(sc.decisions)
	var val bool
	if idx < len(sc.prefix) {
		val = sc.prefix[idx]
	} else {
		local := []*sym.Term{}
		for s := sc; s != nil; s = s.parent {
			local = append(local, s.pc...)
		}
		lp := m.C.And(local...)
		ft := m.mergeFeasible(m.C.And(lp, cond))
		forked := false
		if ft {
			if m.mergeFeasible(m.C.And(lp, m.C.Not(cond))) {
				alt := append(append([]bool(nil), sc.decisions...), false)
				sc.pending = append(sc.pending, alt)
				forked = true
			}
			val = true
		} else {
			val = false
		}
		if !forked && len(local) == 0 {
			// implied by the caller's path condition alone: not a local decision but a fact
			// of the path; remember it (the simplifier folds later occurrences)
			fact := cond
			if !val {
				fact = m.C.Not(cond)
			}
			m.decided[cond], m.decided[m.C.Not(cond)] = val, !val
			m.C.LearnFact(fact)
			return val
		}
	}
	sc.decisions = append(sc.decisions, val)
	sc.decided[cond] = val
	sc.decided[m.C.Not(cond)] = !val
	if val {
		sc.pc = append(sc.pc, cond)
	} else {
		sc.pc = append(sc.pc, m.C.Not(cond))
	}
	return val
}

func (m *Machine) mergeFeasible(t *sym.Term) bool {
	if t.IsTrue() {
		return true
	}
	if t.IsFalse() {
		return false
	}
	if m.model != nil && sym.Eval(t, m.model, m.modelMemo) == 1 {
		m.CacheHits++
		return true
	}
	r := m.S.CheckAssuming(t)
	if r == smt.Unknown {
		panic(mergeAbort{"solver unknown"})
	}
	return r == smt.Sat
}

// decideLen fixes the length of a symbolic string on the current path: by concretisation
// on an ordinary path, by local decisions inside a merge scope.
func (m *Machine) decideLen(s *sym.Str) int {
	if s.Len.IsConst() {
		return int(s.Len.Val)
	}
	if m.merge == nil {
		return int(m.Concretize(s.Len, false))
	}
	for n := 0; n < len(s.Ch); n++ {
		if m.Decide(m.C.Eq(s.Len, m.C.L(n))) {
			return n
		}
	}
	return len(s.Ch)
}

// ---------------------------------------------------------------- loop-header merging

var loopHdrMemo = map[*ssa.BasicBlock]bool{}
var liveMemo = map[*ssa.Function]map[*ssa.BasicBlock]map[ssa.Value]bool{}

func isLoopHeader(b *ssa.BasicBlock) bool {
	mergeableMu.Lock()
	defer mergeableMu.Unlock()
	if v, ok := loopHdrMemo[b]; ok {
		return v
	}
	h := false
	for _, p := range b.Preds {
		if p.Index >= b.Index {
			h = true
		}
	}
	loopHdrMemo[b] = h
	return h
}

func trackable(v ssa.Value) bool {
	switch v.(type) {
	case *ssa.Parameter, *ssa.FreeVar:
		return true
	case ssa.Instruction:
		return true
	}
	return false
}

// liveIn: SSA values live on entry to each block (phi operands count as live-out of the
// corresponding predecessor, not as live-in of the phi's block).
func liveIn(fn *ssa.Function) map[*ssa.BasicBlock]map[ssa.Value]bool {
	mergeableMu.Lock()
	defer mergeableMu.Unlock()
	if l, ok := liveMemo[fn]; ok {
		return l
	}
	use := map[*ssa.BasicBlock]map[ssa.Value]bool{}
	def := map[*ssa.BasicBlock]map[ssa.Value]bool{}
	for _, b := range fn.Blocks {
		use[b], def[b] = map[ssa.Value]bool{}, map[ssa.Value]bool{}
		for _, ins := range b.Instrs {
			if _, isPhi := ins.(*ssa.Phi); !isPhi {
				var ops []*ssa.Value
				for _, op := range ins.Operands(ops) {
					if *op != nil && trackable(*op) && !def[b][*op] {
						use[b][*op] = true
					}
				}
			}
			if v, ok := ins.(ssa.Value); ok {
				def[b][v] = true
			}
		}
	}
	in := map[*ssa.BasicBlock]map[ssa.Value]bool{}
	for _, b := range fn.Blocks {
		in[b] = map[ssa.Value]bool{}
	}
	for changed := true; changed; {
		changed = false
		for i := len(fn.Blocks) - 1; i >= 0; i-- {
			b := fn.Blocks[i]
			out := map[ssa.Value]bool{}
			for _, sb := range b.Succs {
				for v := range in[sb] {
					out[v] = true
				}
				for _, ins := range sb.Instrs {
					ph, ok := ins.(*ssa.Phi)
					if !ok {
						break
					}
					for k, p := range sb.Preds {
						if p == b && trackable(ph.Edges[k]) {
							out[ph.Edges[k]] = true
						}
					}
				}
			}
			for v := range use[b] {
				if !in[b][v] {
					in[b][v] = true
					changed = true
				}
			}
			for v := range out {
				if !def[b][v] && !in[b][v] {
					in[b][v] = true
					changed = true
				}
			}
		}
	}
	liveMemo[fn] = in
	return in
}

func (m *Machine) valueKey(v Value, sb *strings.Builder, depth int) bool {
	if depth > 4 {
		return false
	}
	switch x := v.(type) {
	case nil:
		sb.WriteString("nil;")
	case bool:
		fmt.Fprintf(sb, "b%v;", x)
	case int64:
		fmt.Fprintf(sb, "i%d;", x)
	case float64:
		fmt.Fprintf(sb, "f%v;", x)
	case string:
		fmt.Fprintf(sb, "s%q;", x)
	case *sym.Term:
		fmt.Fprintf(sb, "T%p;", x)
	case *sym.Str:
		fmt.Fprintf(sb, "S%p[", x.Len)
		for _, ch := range x.Ch {
			fmt.Fprintf(sb, "%p,", ch)
		}
		sb.WriteString("];")
	case Tuple:
		sb.WriteString("(")
		for _, e := range x {
			if !m.valueKey(e, sb, depth+1) {
				return false
			}
		}
		sb.WriteString(");")
	case Slice:
		if len(x) > 32 {
			return false
		}
		sb.WriteString("[")
		for _, e := range x {
			if !m.valueKey(e, sb, depth+1) {
				return false
			}
		}
		sb.WriteString("];")
	case *mapIter:
		if x.m != nil || x.keys != nil {
			return false
		}
		sb.WriteString("it{")
		if !m.valueKey(x.str, sb, depth+1) {
			return false
		}
		fmt.Fprintf(sb, "%d/%d};", x.i, x.symN)
	case Iface:
		if x.T == nil {
			sb.WriteString("nilI;")
		} else {
			sb.WriteString("I" + x.T.String() + ":")
			return m.valueKey(x.V, sb, depth+1)
		}
	case *Value:
		fmt.Fprintf(sb, "P%p;", x)
	case *Ext:
		fmt.Fprintf(sb, "E%p;", x)
	default:
		return false
	}
	return true
}

// loopStateKey describes the frame state on entry to header b coming from prev: the live
// values and the values the header's phis are about to take.
func (m *Machine) loopStateKey(fr *frame, b, prev *ssa.BasicBlock) (string, bool) {
	var sb strings.Builder
	fmt.Fprintf(&sb, "%d<-%d|", b.Index, prev.Index)
	live := liveIn(fr.fn)[b]
	var vals []ssa.Value
	for v := range live {
		vals = append(vals, v)
	}
	sort.Slice(vals, func(i, j int) bool { return vals[i].Name() < vals[j].Name() })
	for _, v := range vals {
		cur, ok := fr.locals[v]
		if !ok {
			continue
		}
		sb.WriteString(v.Name() + "=")
		if !m.valueKey(cur, &sb, 0) {
			return "", false
		}
	}
	for _, ins := range b.Instrs {
		ph, ok := ins.(*ssa.Phi)
		if !ok {
			break
		}
		for k, p := range b.Preds {
			if p == prev {
				sb.WriteString(ph.Name() + ":=")
				if !m.valueKey(m.get(fr, ph.Edges[k]), &sb, 0) {
					return "", false
				}
			}
		}
	}
	return sb.String(), true
}

// mergeAtLoopHeader: inside a merge scope, the root frame arrives at a loop header. The
// rest of the function from this state is explored once (its own local paths, feasibility
// under the caller's path condition only, so that the result is valid for every way of
// arriving here), merged into one value and remembered.
func (m *Machine) mergeAtLoopHeader(fr *frame, b, prev *ssa.BasicBlock) (Value, bool) {
	cur := m.merge
	if cur == nil || cur.inv == nil || cur.inv.fn != fr.fn || len(fr.defers) > 0 {
		return nil, false
	}
	if cur.skipHdr == b {
		cur.skipHdr = nil
		return nil, false
	}
	key, ok := m.loopStateKey(fr, b, prev)
	if !ok {
		return nil, false
	}
	if v, hit := cur.inv.memo[key]; hit {
		m.LoopMemoHits++
		return v, true
	}
	snapshot := fr.locals
	var results []pathRes
	work := [][]bool{nil}
	for len(work) > 0 {
		pre := work[len(work)-1]
		work = work[:len(work)-1]
		sc := &mergeScope{inv: cur.inv, skipHdr: b, parent: nil, prefix: pre, decided: map[*sym.Term]bool{}}
		m.merge = sc
		frc := &frame{fn: fr.fn, locals: make(map[ssa.Value]Value, len(snapshot)), env: fr.env}
		for k, v := range snapshot {
			if it, isIt := v.(*mapIter); isIt {
				cp := *it
				v = &cp
			}
			if sl, isSl := v.(Slice); isSl && sl != nil {
				v = append(make(Slice, 0, len(sl)), sl...) // no backing array shared between continuation runs
			}
			frc.locals[k] = v
		}
		func() {
			defer func() { m.merge = cur }()
			m.runFrameFromPrev(frc, b, prev)
		}()
		results = append(results, pathRes{m.C.And(sc.pc...), frc.result})
		work = append(work, sc.pending...)
		if len(results)+len(work) > mergeMaxPaths {
			panic(mergeAbort{"too many local paths in a loop continuation"})
		}
	}
	m.merge = cur
	v := m.mergeResults(fr.fn, results)
	cur.inv.memo[key] = v
	return v, true
}
