package gose

import (
	"fmt"
	"go/types"
	"path/filepath"
	"strings"

	"golang.org/x/tools/go/ssa"

	"verif/engine/sym"
)

func init() {
	reg("os.Exit", func(m *Machine, fn *ssa.Function, a []Value) Value {
		m.osExit(m.toInt(a[0]), "os.Exit")
		return nil
	})
	reg("os.Stat", func(m *Machine, fn *ssa.Function, a []Value) Value {
		fi, err := m.fsStat(a[0])
		return Tuple{fi, err}
	})
	reg("os.Lstat", intrinsics["os.Stat"])
	reg("os.IsNotExist", func(m *Machine, fn *ssa.Function, a []Value) Value {
		return errKind(a[0]) == "ENOENT" || errKind(a[0]) == "sentinel:ENOENT"
	})
	reg("os.IsExist", func(m *Machine, fn *ssa.Function, a []Value) Value {
		return errKind(a[0]) == "EEXIST" || errKind(a[0]) == "sentinel:EEXIST"
	})
	reg("os.MkdirAll", func(m *Machine, fn *ssa.Function, a []Value) Value { return m.fsMkdirAll(a[0]) })
	reg("os.Mkdir", func(m *Machine, fn *ssa.Function, a []Value) Value {
		p := m.mustStr(a[0], "os.Mkdir")
		if m.Env.node(m.Env.abs(p)) != nil {
			return m.errVal("EEXIST", "mkdir "+p+": file exists")
		}
		if !m.Env.parentExists(m.Env.abs(p)) {
			return m.errVal("ENOENT", "mkdir "+p+": no such file or directory")
		}
		return m.fsMkdirAll(a[0])
	})
	reg("os.Rename", func(m *Machine, fn *ssa.Function, a []Value) Value { return m.fsRename(a[0], a[1]) })
	reg("os.Remove", func(m *Machine, fn *ssa.Function, a []Value) Value { return m.fsRemove(a[0], false) })
	reg("os.RemoveAll", func(m *Machine, fn *ssa.Function, a []Value) Value { return m.fsRemove(a[0], true) })
	reg("os.LookupEnv", func(m *Machine, fn *ssa.Function, a []Value) Value {
		v, ok := m.Env.EnvVars[m.mustStr(a[0], "LookupEnv")]
		return Tuple{v, ok}
	})
	reg("os.Getenv", func(m *Machine, fn *ssa.Function, a []Value) Value {
		return m.Env.EnvVars[m.mustStr(a[0], "Getenv")]
	})
	reg("os.Getwd", func(m *Machine, fn *ssa.Function, a []Value) Value { return Tuple{m.Env.Cwd, nilErr()} })
	mkFile := func(m *Machine, path string, mode string) *Ext {
		return &Ext{Kind: "file", F: map[string]Value{"path": path, "mode": mode, "buf": ""}}
	}
	reg("os.Create", func(m *Machine, fn *ssa.Function, a []Value) Value {
		p := m.mustStr(a[0], "os.Create")
		if e := m.fsWriteFile(p, "", "go"); !isNilValue(e) {
			return Tuple{(*Ext)(nil), e}
		}
		return Tuple{mkFile(m, p, "w"), nilErr()}
	})
	reg("os.Open", func(m *Machine, fn *ssa.Function, a []Value) Value {
		p, ok := m.pathArg(a[0])
		if !ok {
			m.unsupported("os.Open on symbolic path")
		}
		m.Env.event(m, "open", p)
		n := m.Env.node(m.Env.abs(p))
		if n == nil {
			return Tuple{(*Ext)(nil), m.errVal("ENOENT", "open "+p+": no such file or directory")}
		}
		f := mkFile(m, p, "r")
		f.F["node"] = n
		return Tuple{f, nilErr()}
	})
	reg("os.OpenFile", func(m *Machine, fn *ssa.Function, a []Value) Value {
		// used for append-mode writes (Concatenator)
		p := m.mustStr(a[0], "os.OpenFile")
		flags := m.toInt(a[1])
		ab := m.Env.abs(p)
		n := m.Env.node(ab)
		const oCreate, oAppend, oTrunc = 0x40, 0x400, 0x200
		if n == nil {
			if flags&oCreate == 0 {
				return Tuple{(*Ext)(nil), m.errVal("ENOENT", "open "+p+": no such file or directory")}
			}
			if e := m.fsWriteFile(p, "", "go"); !isNilValue(e) {
				return Tuple{(*Ext)(nil), e}
			}
			n = m.Env.node(ab)
		} else if flags&oTrunc != 0 {
			n.C = &Content{Origin: "go", Status: int64(2), Data: ""}
		}
		f := mkFile(m, p, "a")
		f.F["node"] = n
		if flags&oAppend == 0 && flags&oTrunc == 0 && flags&3 != 0 {
			f.F["mode"] = "w"
		}
		return Tuple{f, nilErr()}
	})
	writeTo := func(m *Machine, f *Ext, data Value) Value {
		p := f.F["path"].(string)
		n := m.Env.node(m.Env.abs(p))
		if n == nil || n.Kind != KFile {
			return m.errVal("EBADF", "write "+p+": bad file")
		}
		m.crashPoint("file-write " + p)
		m.Env.event(m, "file-write", p, data)
		old := n.C.Data
		if old == nil {
			old = ""
		}
		n.C = &Content{Origin: "go", Status: int64(2), Data: m.catData(old, data)}
		n.MTime = m.now()
		return nilErr()
	}
	lenOf := func(m *Machine, d Value) Value {
		switch x := d.(type) {
		case string:
			return int64(len(x))
		case *sym.Str:
			if x.Len.IsConst() {
				return int64(x.Len.Val)
			}
			return m.C.Zext(x.Len, 32)
		}
		return int64(1)
	}
	reg("(*os.File).Write", func(m *Machine, fn *ssa.Function, a []Value) Value {
		d := m.bytesToData(a[1])
		e := writeTo(m, a[0].(*Ext), d)
		return Tuple{lenOf(m, d), e}
	})
	reg("(*os.File).WriteString", func(m *Machine, fn *ssa.Function, a []Value) Value {
		e := writeTo(m, a[0].(*Ext), a[1])
		return Tuple{lenOf(m, a[1]), e}
	})
	reg("(*os.File).Close", func(m *Machine, fn *ssa.Function, a []Value) Value { return nilErr() })
	reg("(*os.File).Sync", func(m *Machine, fn *ssa.Function, a []Value) Value { return nilErr() })
	reg("(*os.File).Name", func(m *Machine, fn *ssa.Function, a []Value) Value { return a[0].(*Ext).F["path"] })
	reg("io/ioutil.ReadFile", func(m *Machine, fn *ssa.Function, a []Value) Value {
		b, e := m.fsReadFile(a[0])
		return Tuple{b, e}
	})
	reg("os.ReadFile", intrinsics["io/ioutil.ReadFile"])
	reg("io/ioutil.WriteFile", func(m *Machine, fn *ssa.Function, a []Value) Value {
		return m.fsWriteFile(a[0], m.bytesToData(a[1]), "go")
	})
	reg("os.WriteFile", intrinsics["io/ioutil.WriteFile"])
	reg("io/ioutil.TempFile", func(m *Machine, fn *ssa.Function, a []Value) Value {
		dir := m.mustStr(a[0], "TempFile dir")
		if dir == "" {
			dir = "/tmp"
		}
		m.Env.Tmpfiles++
		pat := m.mustStr(a[1], "TempFile pattern")
		p := fmt.Sprintf("%s/%s%09d", dir, pat, m.Env.Tmpfiles)
		if i := strings.LastIndex(pat, "*"); i >= 0 {
			p = fmt.Sprintf("%s/%s%09d%s", dir, pat[:i], m.Env.Tmpfiles, pat[i+1:])
		}
		if e := m.fsWriteFile(p, "", "go"); !isNilValue(e) {
			return Tuple{(*Ext)(nil), e}
		}
		return Tuple{mkFile(m, p, "w"), nilErr()}
	})
	reg("os.CreateTemp", intrinsics["io/ioutil.TempFile"])

	// ------------------------------------------------------------ filepath.Walk / Glob
	reg("path/filepath.Walk", func(m *Machine, fn *ssa.Function, a []Value) Value {
		w := m.Env
		root, ok := m.pathArg(a[0])
		cb := a[1]
		if !ok {
			if !w.Trace {
				m.unsupported("filepath.Walk on symbolic root outside trace mode")
			}
			w.event(m, "walk", a[0])
			for _, f := range w.WalkExtra {
				fi := Iface{T: m.extType("fileinfo"), V: &Ext{Kind: "fileinfo", F: map[string]Value{"isdir": false, "name": f, "xkind": w.WalkExtraKind}}}
				r := m.callValue(cb, []Value{f, fi, nilErr()}, nil)
				if !isNilValue(r) {
					return r
				}
			}
			return nilErr()
		}
		w.event(m, "walk", root)
		ar := w.abs(root)
		if w.node(ar) == nil {
			// Walk calls fn with the Lstat error and a nil FileInfo
			return m.callValue(cb, []Value{root, Iface{}, m.errVal("ENOENT", "lstat "+root+": no such file or directory")}, nil)
		}
		// lexical order, parents before children; snapshot taken per directory like the real Walk
		var walk func(abs, shown string) Value
		walk = func(abs, shown string) Value {
			n := w.node(abs)
			if n == nil {
				return nilErr()
			}
			fi := Iface{T: m.extType("fileinfo"), V: &Ext{Kind: "fileinfo", F: map[string]Value{"isdir": n.Kind == KDir, "name": filepath.Base(shown), "node": n}}}
			r := m.callValue(cb, []Value{shown, fi, nilErr()}, nil)
			if !isNilValue(r) {
				return r
			}
			if n.Kind == KDir {
				for _, ch := range w.children(abs) {
					if r := walk(ch, shown+"/"+filepath.Base(ch)); !isNilValue(r) {
						return r
					}
				}
			}
			return nilErr()
		}
		if r := walk(ar, root); !isNilValue(r) {
			return r
		}
		// files with symbolic names the harness placed below the root (trace mode)
		for _, f := range w.WalkExtra {
			fi := Iface{T: m.extType("fileinfo"), V: &Ext{Kind: "fileinfo", F: map[string]Value{"isdir": false, "name": f, "xkind": w.WalkExtraKind}}}
			r := m.callValue(cb, []Value{f, fi, nilErr()}, nil)
			if !isNilValue(r) {
				return r
			}
		}
		return nilErr()
	})
	reg("path/filepath.Glob", func(m *Machine, fn *ssa.Function, a []Value) Value {
		w := m.Env
		pat := m.mustStr(a[0], "filepath.Glob")
		w.event(m, "glob", pat)
		var out []string
		absPat := pat
		rel := !filepath.IsAbs(pat)
		if rel {
			absPat = filepath.Join(w.Cwd, pat)
		}
		for p, n := range w.Nodes {
			if n.Kind == KAbsent {
				continue
			}
			if ok, _ := filepath.Match(absPat, p); ok {
				if rel {
					r, _ := filepath.Rel(w.Cwd, p)
					// keep the directory prefix exactly as written in the pattern
					out = append(out, r)
				} else {
					out = append(out, p)
				}
			}
		}
		sortStrings(out)
		if out == nil {
			return Tuple{Slice(nil), nilErr()}
		}
		return Tuple{toSlice(out), nilErr()}
	})

	// ------------------------------------------------------------ os/exec
	reg("os/exec.Command", func(m *Machine, fn *ssa.Function, a []Value) Value {
		return &Ext{Kind: "cmd", F: map[string]Value{"name": a[0], "args": a[1]}}
	})
	runCmd := func(m *Machine, e *Ext) Value {
		name := m.mustStr(e.F["name"], "exec name")
		args := variadic(e.F["args"])
		if name != "bash" || len(args) != 2 {
			m.unsupported("exec of %s with %d args", name, len(args))
		}
		flag := m.mustStr(args[0], "bash flag")
		if flag != "-c" && flag != "-lc" {
			m.unsupported("bash flag %s", flag)
		}
		return m.runShell(args[1])
	}
	reg("(*os/exec.Cmd).CombinedOutput", func(m *Machine, fn *ssa.Function, a []Value) Value {
		m.Env.LastStdout = nil
		err := runCmd(m, a[0].(*Ext))
		if err == nil {
			err = nilErr()
		}
		var out Value = Slice{}
		if m.Env.LastStdout != nil {
			out = m.dataToBytes(m.Env.LastStdout)
		}
		m.Env.LastStdout = nil
		return Tuple{out, err}
	})
	reg("(*os/exec.Cmd).Output", intrinsics["(*os/exec.Cmd).CombinedOutput"])
	reg("(*os/exec.Cmd).Run", func(m *Machine, fn *ssa.Function, a []Value) Value {
		err := runCmd(m, a[0].(*Ext))
		if err == nil {
			err = nilErr()
		}
		return err
	})
	psCode := func(m *Machine, v Value) Value {
		var e *Ext
		switch x := v.(type) {
		case *Ext:
			e = x
		case *Value:
			e = (*x).(Struct)[0].(*Ext)
		}
		switch c := e.F["code"].(type) {
		case int64:
			if c == 255 {
				return int64(-1)
			}
			return c
		case *sym.Term:
			cc := m.C
			return cc.Ite(cc.Eq(c, cc.BV(8, 255)), cc.BV(32, 0xffffffff), cc.Zext(c, 32))
		}
		return int64(1)
	}
	for _, recv := range []string{"(*os/exec.ExitError)", "(*os.ProcessState)"} {
		reg(recv+".ExitCode", func(m *Machine, fn *ssa.Function, a []Value) Value { return psCode(m, a[0]) })
		reg(recv+".Success", func(m *Machine, fn *ssa.Function, a []Value) Value {
			return m.eqValue(psCode(m, a[0]), int64(0))
		})
		reg(recv+".Exited", func(m *Machine, fn *ssa.Function, a []Value) Value {
			return m.notV(m.eqValue(psCode(m, a[0]), int64(-1)))
		})
		reg(recv+".String", func(m *Machine, fn *ssa.Function, a []Value) Value { return "exit status (non-zero)" })
	}
	reg("(*os/exec.ExitError).Error", func(m *Machine, fn *ssa.Function, a []Value) Value { return "exit status (non-zero)" })
	reg("errors.As", func(m *Machine, fn *ssa.Function, a []Value) Value {
		err, _ := a[0].(Iface)
		tgt, _ := a[1].(Iface)
		if err.T == nil || tgt.T == nil {
			return false
		}
		p, ok := tgt.V.(*Value)
		if !ok {
			m.unsupported("errors.As target %T", tgt.V)
		}
		if pt, ok := tgt.T.Underlying().(*types.Pointer); ok {
			// walk the %w chain
			cur := err
			for depth := 0; depth < 10 && cur.T != nil; depth++ {
				if types.Identical(pt.Elem(), cur.T) {
					*p = cur.V
					return true
				}
				// file-system errors are *fs.PathError natively
				if ep, isP := types.Unalias(pt.Elem()).(*types.Pointer); isP {
					if nm, isN := types.Unalias(ep.Elem()).(*types.Named); isN && nm.Obj().Name() == "PathError" {
						switch k := errKind(cur); k {
						case "ENOENT", "EEXIST", "ENOTDIR", "EISDIR", "EBADF", "ENOTEMPTY", "EPERM":
							msg, _ := cur.V.(*Ext).F["msg"].(string)
							op, path := msg, ""
							if i := strings.Index(msg, " "); i > 0 {
								op = msg[:i]
								path = msg[i+1:]
								if j := strings.Index(path, ": "); j >= 0 {
									path = path[:j]
								}
							}
							pe := new(Value)
							*pe = Struct{op, path, m.errVal("sentinel:"+k, strings.ToLower(k))}
							*p = pe
							return true
						}
					}
				}
				e, isE := cur.V.(*Ext)
				if !isE || e == nil || e.F["wrapped"] == nil {
					break
				}
				w, isI := e.F["wrapped"].(Iface)
				if !isI {
					break
				}
				cur = w
			}
		}
		return false
	})
	reg("errors.Is", func(m *Machine, fn *ssa.Function, a []Value) Value {
		// the chain of err (via %w) is compared with the target; a file-system error matches
		// the sentinel of its kind (os.ErrNotExist, os.ErrExist, ...)
		cur := a[0]
		for depth := 0; depth < 10; depth++ {
			ci, ok := cur.(Iface)
			if !ok || ci.T == nil {
				return false
			}
			if eq, isB := m.eqValue(cur, a[1]).(bool); isB && eq {
				return true
			}
			if k := errKind(a[1]); strings.HasPrefix(k, "sentinel:") && errKind(cur) == strings.TrimPrefix(k, "sentinel:") {
				return true
			}
			e, ok := ci.V.(*Ext)
			if !ok || e == nil || e.F["wrapped"] == nil {
				return false
			}
			cur = e.F["wrapped"]
		}
		return false
	})

	// ------------------------------------------------------------ encoding/json (snapshot model)
	reg("encoding/json.MarshalIndent", func(m *Machine, fn *ssa.Function, a []Value) Value {
		it := a[0].(Iface)
		m.logDeepRead(it.V, map[interface{}]bool{})
		return Tuple{&JSONBlob{Snap: deepCopy(it.V)}, nilErr()}
	})
	reg("encoding/json.Marshal", intrinsics["encoding/json.MarshalIndent"])
	reg("encoding/json.Unmarshal", func(m *Machine, fn *ssa.Function, a []Value) Value {
		blob, ok := a[0].(*JSONBlob)
		if !ok {
			return m.errVal("json", "invalid character: content is not a JSON snapshot")
		}
		it := a[1].(Iface)
		dst, ok := it.V.(*Value)
		if !ok || dst == nil {
			return m.errVal("json", "Unmarshal(non-pointer)")
		}
		src := blob.Snap
		if sp, ok := src.(*Value); ok {
			if sp == nil {
				return nilErr()
			}
			src = *sp
		}
		*dst = deepCopy(src)
		return nilErr()
	})

	// ------------------------------------------------------------ bufio (line scanner over model files)
	reg("bufio.NewScanner", func(m *Machine, fn *ssa.Function, a []Value) Value {
		it := a[0].(Iface)
		if rp, isP := it.V.(*Value); isP && rp != nil && it.T != nil && strings.HasSuffix(it.T.String(), "strings.Reader") {
			// a *strings.Reader: the lines of its string
			st, _ := (*rp).(Struct)
			var lines []Value
			switch x := st[0].(type) {
			case string:
				if x != "" {
					lines = toSliceV(strings.Split(strings.TrimSuffix(x, "\n"), "\n"))
				}
			case *sym.Str:
				parts := m.symSplit(x, "\n").(Slice)
				// a final newline does not start another line
				if n := len(parts); n > 0 {
					if ls, isS := parts[n-1].(string); isS && ls == "" {
						parts = parts[:n-1]
					}
				}
				lines = parts
			default:
				m.unsupported("bufio.NewScanner over a strings.Reader of %T", st[0])
			}
			return &Ext{Kind: "scanner", F: map[string]Value{"lines": Slice(lines), "i": int64(-1)}}
		}
		f, ok := it.V.(*Ext)
		if !ok || f.Kind != "file" {
			m.unsupported("bufio.NewScanner over %T", it.V)
		}
		n, _ := f.F["node"].(*Node)
		var lines []Value
		if n != nil && n.C != nil {
			lines = m.splitLines(n.C.Data)
		}
		return &Ext{Kind: "scanner", F: map[string]Value{"lines": Slice(lines), "i": int64(-1)}}
	})
	reg("(*bufio.Scanner).Scan", func(m *Machine, fn *ssa.Function, a []Value) Value {
		s := a[0].(*Ext)
		i := s.F["i"].(int64) + 1
		s.F["i"] = i
		return int(i) < len(s.F["lines"].(Slice))
	})
	reg("(*bufio.Scanner).Text", func(m *Machine, fn *ssa.Function, a []Value) Value {
		s := a[0].(*Ext)
		return s.F["lines"].(Slice)[s.F["i"].(int64)]
	})
	reg("(*bufio.Scanner).Bytes", func(m *Machine, fn *ssa.Function, a []Value) Value {
		s := a[0].(*Ext)
		return m.dataToBytes(s.F["lines"].(Slice)[s.F["i"].(int64)])
	})
	reg("(*bufio.Scanner).Err", func(m *Machine, fn *ssa.Function, a []Value) Value { return nilErr() })
	reg("(*bufio.Scanner).Buffer", func(m *Machine, fn *ssa.Function, a []Value) Value { return nil })
}

// Lines is file content made of whole lines (each terminated by "\n").
type Lines struct{ L []Value }

func (m *Machine) catData(old, add Value) Value {
	if ls, ok := old.(*Lines); ok {
		// appending text to a line-structured file: track pending partial line
		return m.appendToLines(ls, add)
	}
	if s, ok := old.(string); ok && s == "" {
		if _, isL := add.(*Lines); isL {
			return add
		}
		return m.appendToLines(&Lines{}, add)
	}
	return m.appendToLines(&Lines{L: []Value{}}, m.concatV(old, add))
}

// appendToLines appends a chunk; chunks ending in "\n" complete a line. A trailing
// partial line is kept as the last element with a marker.
func (m *Machine) appendToLines(ls *Lines, add Value) Value {
	out := &Lines{L: append([]Value(nil), ls.L...)}
	// pending partial line is stored as Struct{"partial", data}
	var pending Value = ""
	if n := len(out.L); n > 0 {
		if p, ok := out.L[n-1].(Struct); ok {
			pending = p[1]
			out.L = out.L[:n-1]
		}
	}
	add = m.normScalar(add)
	switch x := add.(type) {
	case string:
		full := x
		for {
			i := strings.IndexByte(full, '\n')
			if i < 0 {
				break
			}
			out.L = append(out.L, m.concatV(pending, full[:i]))
			pending = ""
			full = full[i+1:]
		}
		pending = m.concatV(pending, full)
	case *Lines:
		if !m.emptyV(pending) {
			m.unsupported("appending line-structured data after a partial line")
		}
		out.L = append(out.L, x.L...)
	case *sym.Str:
		// symbolic chunk: harness alphabets are newline-free, so a newline can only be a
		// constant character; a constant trailing newline completes the line
		if x.Len.IsConst() {
			n := int(x.Len.Val)
			if n > 0 && x.Ch[n-1].IsConst() && x.Ch[n-1].Val == '\n' {
				body := &sym.Str{Len: m.C.L(n - 1), Ch: x.Ch[:n-1]}
				out.L = append(out.L, m.concatV(pending, m.normScalar(body)))
				pending = ""
				break
			}
		}
		pending = m.concatV(pending, add)
	default:
		pending = m.concatV(pending, add)
	}
	if !m.emptyV(pending) {
		out.L = append(out.L, Struct{"partial", pending})
	}
	return out
}

func (m *Machine) emptyV(v Value) bool {
	s, ok := m.normScalar(v).(string)
	return ok && s == ""
}

func (m *Machine) concatV(a, b Value) Value {
	a, b = m.normScalar(a), m.normScalar(b)
	as, aok := a.(string)
	bs, bok := b.(string)
	if aok && bok {
		return as + bs
	}
	if aok && as == "" {
		return b
	}
	if bok && bs == "" {
		return a
	}
	return m.normScalar(m.C.Concat(m.strTerm(a), m.strTerm(b)))
}

func (m *Machine) splitLines(d Value) []Value {
	switch x := d.(type) {
	case nil:
		return nil
	case *Lines:
		var out []Value
		for _, l := range x.L {
			if p, ok := l.(Struct); ok {
				out = append(out, p[1])
			} else {
				out = append(out, l)
			}
		}
		return out
	case string:
		if x == "" {
			return nil
		}
		parts := strings.Split(strings.TrimSuffix(x, "\n"), "\n")
		out := make([]Value, len(parts))
		for i, p := range parts {
			out[i] = p
		}
		return out
	}
	m.unsupported("line scanning of %T content", d)
	return nil
}

func sortStrings(s []string) {
	for i := 1; i < len(s); i++ {
		for j := i; j > 0 && s[j] < s[j-1]; j-- {
			s[j], s[j-1] = s[j-1], s[j]
		}
	}
}

func toSliceV(ss []string) []Value {
	r := make([]Value, len(ss))
	for i, x := range ss {
		r[i] = x
	}
	return r
}
