package gose

// Further library models, added after probing which calls a refactoring or a change of
// scipipe might plausibly introduce (harness VxHLibProbe, tools/libprobe.sh): directory
// listing, io.ReadAll / io.Copy on modelled files, temp directories, sync.Once,
// sync/atomic, RWMutex read locks, timers, more of time.Time, bytes helpers.

import (
	"bytes"
	"fmt"
	"go/token"
	"go/types"
	"path/filepath"
	"sort"
	"strings"

	"golang.org/x/tools/go/ssa"

	"verif/engine/sym"
)

// linesToData renders line-structured content as one string value if every piece is a
// string (concrete or symbolic).
func (m *Machine) linesToData(ls *Lines) (Value, bool) {
	var acc Value = ""
	for _, l := range ls.L {
		if p, ok := l.(Struct); ok { // pending partial line
			switch p[1].(type) {
			case string, *sym.Str:
				acc = m.concatV(acc, p[1])
				continue
			}
			return nil, false
		}
		switch l.(type) {
		case string, *sym.Str:
			acc = m.concatV(m.concatV(acc, l), "\n")
		default:
			return nil, false
		}
	}
	return acc, true
}

func concreteBytes(v Value) ([]byte, bool) {
	switch x := v.(type) {
	case Slice:
		b := make([]byte, len(x))
		for i, e := range x {
			k, ok := e.(int64)
			if !ok {
				return nil, false
			}
			b[i] = byte(k)
		}
		return b, true
	case nil:
		return nil, true
	}
	return nil, false
}

func (m *Machine) dirEntries(dir string) ([]string, []*Node) {
	w := m.Env
	ab := w.abs(dir)
	var names []string
	for p := range w.Nodes {
		if p != ab && filepath.Dir(p) == ab {
			names = append(names, filepath.Base(p))
		}
	}
	sort.Strings(names)
	nodes := make([]*Node, len(names))
	for i, n := range names {
		nodes[i] = w.Nodes[filepath.Join(ab, n)]
	}
	return names, nodes
}

func init() {
	// ------------------------------------------------------------ directories
	readDir := func(m *Machine, fn *ssa.Function, a []Value) Value {
		p := m.mustStr(a[0], "ReadDir")
		n := m.Env.node(m.Env.abs(p))
		m.Env.event(m, "readdir", p)
		if n == nil {
			return Tuple{Slice(nil), m.errVal("ENOENT", "open "+p+": no such file or directory")}
		}
		if n.Kind != KDir {
			return Tuple{Slice(nil), m.errVal("ENOTDIR", "readdir "+p+": not a directory")}
		}
		names, nodes := m.dirEntries(p)
		out := make(Slice, len(names))
		for i := range names {
			out[i] = Iface{T: m.extType("fileinfo"), V: &Ext{Kind: "fileinfo", F: map[string]Value{"isdir": nodes[i].Kind == KDir, "name": names[i], "node": nodes[i]}}}
		}
		return Tuple{out, nilErr()}
	}
	reg("os.ReadDir", readDir)
	reg("io/ioutil.ReadDir", readDir)
	mkTemp := func(m *Machine, fn *ssa.Function, a []Value) Value {
		dir := m.mustStr(a[0], "TempDir dir")
		if dir == "" {
			dir = "/tmp"
		}
		m.Env.Tmpfiles++
		pat := m.mustStr(a[1], "TempDir pattern")
		name := fmt.Sprintf("%s%09d", pat, m.Env.Tmpfiles)
		if i := strings.LastIndex(pat, "*"); i >= 0 {
			name = pat[:i] + fmt.Sprintf("%09d", m.Env.Tmpfiles) + pat[i+1:]
		}
		p := dir + "/" + name
		if e := m.fsMkdirAll(p); !isNilValue(e) {
			return Tuple{"", e}
		}
		return Tuple{p, nilErr()}
	}
	reg("io/ioutil.TempDir", mkTemp)
	reg("os.MkdirTemp", mkTemp)
	reg("os.Chmod", func(m *Machine, fn *ssa.Function, a []Value) Value {
		p := m.mustStr(a[0], "os.Chmod")
		if m.Env.node(m.Env.abs(p)) == nil {
			return m.errVal("ENOENT", "chmod "+p+": no such file or directory")
		}
		return nilErr()
	})
	reg("(*os.File).Chmod", func(m *Machine, fn *ssa.Function, a []Value) Value { return nilErr() })
	reg("os.Chtimes", intrinsics["os.Chmod"])
	// the number of CPUs of the host is an input: any value in 1..64
	reg("runtime.NumCPU", func(m *Machine, fn *ssa.Function, a []Value) Value {
		if v, ok := m.userData["__numcpu"]; ok {
			return v
		}
		c := m.C
		v := c.Var("host.numcpu", 32)
		m.declInput(&InputDecl{Name: v.Name, Kind: "int", Bits: 32, Term: v})
		m.assertPC(c.And(c.Sle(c.BV(32, 1), v), c.Sle(v, c.BV(32, 64))))
		m.userData["__numcpu"] = v
		return v
	})
	reg("runtime.GOMAXPROCS", func(m *Machine, fn *ssa.Function, a []Value) Value {
		return intrinsics["runtime.NumCPU"](m, fn, nil)
	})
	mkfifo := func(m *Machine, fn *ssa.Function, a []Value) Value {
		p := m.mustStr(a[0], "Mkfifo")
		w := m.Env
		ab := w.abs(p)
		m.crashPoint("mkfifo " + p)
		w.event(m, "mkfifo", p)
		if w.node(ab) != nil {
			return m.errVal("EEXIST", "mkfifo "+p+": file exists")
		}
		if !w.parentExists(ab) || !w.dotDotOK(w.Cwd, p) {
			return m.errVal("ENOENT", "mkfifo "+p+": no such file or directory")
		}
		w.nextIno++
		w.Nodes[ab] = &Node{Kind: KFifo, Ino: w.nextIno}
		return nilErr()
	}
	reg("syscall.Mkfifo", mkfifo)
	reg("golang.org/x/sys/unix.Mkfifo", mkfifo)
	reg("syscall.Mknod", func(m *Machine, fn *ssa.Function, a []Value) Value {
		const sIFIFO = 0x1000
		if m.toInt(a[1])&0xf000 != sIFIFO {
			m.unsupported("syscall.Mknod of something that is not a FIFO")
		}
		return mkfifo(m, fn, a)
	})
	reg("os.TempDir", func(m *Machine, fn *ssa.Function, a []Value) Value { return "/tmp" })
	reg("os.Chdir", func(m *Machine, fn *ssa.Function, a []Value) Value {
		p := m.mustStr(a[0], "os.Chdir")
		n := m.Env.node(m.Env.abs(p))
		if n == nil || n.Kind != KDir {
			return m.errVal("ENOENT", "chdir "+p+": no such file or directory")
		}
		m.Env.Cwd = m.Env.abs(p)
		return nilErr()
	})

	// ------------------------------------------------------------ io on modelled files
	fileOf := func(v Value) *Ext {
		switch x := v.(type) {
		case Iface:
			if e, ok := x.V.(*Ext); ok && e != nil && e.Kind == "file" {
				return e
			}
		case *Ext:
			if x != nil && x.Kind == "file" {
				return x
			}
		}
		return nil
	}
	// the unread rest of a file opened for reading
	restOf := func(m *Machine, f *Ext) (Value, bool) {
		if done, _ := f.F["eof"].(bool); done {
			return "", true
		}
		p := f.F["path"].(string)
		n := m.Env.node(m.Env.abs(p))
		if n == nil || n.Kind != KFile {
			return nil, false
		}
		m.Env.event(m, "read", p)
		d := n.C.Data
		if ls, ok := d.(*Lines); ok {
			if s, ok := m.linesToData(ls); ok {
				d = s
			}
		}
		if d == nil {
			d = ""
		}
		f.F["eof"] = true
		return d, true
	}
	readAll := func(m *Machine, fn *ssa.Function, a []Value) Value {
		f := fileOf(a[0])
		if f == nil {
			m.unsupported("io.ReadAll of a reader that is not a modelled file")
		}
		d, ok := restOf(m, f)
		if !ok {
			return Tuple{Slice(nil), m.errVal("EBADF", "read: bad file")}
		}
		return Tuple{m.dataToBytes(d), nilErr()}
	}
	reg("io.ReadAll", readAll)
	reg("io/ioutil.ReadAll", readAll)
	reg("io.Copy", func(m *Machine, fn *ssa.Function, a []Value) Value {
		dst, src := fileOf(a[0]), fileOf(a[1])
		if dst == nil || src == nil {
			m.unsupported("io.Copy between objects that are not modelled files")
		}
		d, ok := restOf(m, src)
		if !ok {
			return Tuple{int64(0), m.errVal("EBADF", "read: bad file")}
		}
		e := intrinsics["(*os.File).WriteString"](m, fn, []Value{dst, d}).(Tuple)
		return Tuple{m.convert(types.Typ[types.Int], types.Typ[types.Int64], e[0]), e[1]}
	})
	reg("io.WriteString", func(m *Machine, fn *ssa.Function, a []Value) Value {
		f := fileOf(a[0])
		if f == nil {
			m.unsupported("io.WriteString to a writer that is not a modelled file")
		}
		return intrinsics["(*os.File).WriteString"](m, fn, []Value{f, a[1]})
	})

	// ------------------------------------------------------------ json.Encoder / bytes.Buffer holding a snapshot
	reg("encoding/json.NewEncoder", func(m *Machine, fn *ssa.Function, a []Value) Value {
		return &Ext{Kind: "jsonenc", F: map[string]Value{"w": a[0]}}
	})
	reg("(*encoding/json.Encoder).SetEscapeHTML", func(m *Machine, fn *ssa.Function, a []Value) Value { return nil })
	reg("(*encoding/json.Encoder).SetIndent", func(m *Machine, fn *ssa.Function, a []Value) Value { return nil })
	reg("(*encoding/json.Encoder).Encode", func(m *Machine, fn *ssa.Function, a []Value) Value {
		enc := a[0].(*Ext)
		it := a[1].(Iface)
		m.logDeepRead(it.V, map[interface{}]bool{})
		blob := &JSONBlob{Snap: deepCopy(it.V)}
		w := enc.F["w"]
		if f := fileOf(w); f != nil {
			return intrinsics["(*os.File).WriteString"](m, fn, []Value{f, blob}).(Tuple)[1]
		}
		if wi, ok := w.(Iface); ok {
			if p, isP := wi.V.(*Value); isP && p != nil {
				// a *bytes.Buffer (or another in-memory writer): the snapshot is what it holds
				if m.bufBlob == nil {
					m.bufBlob = map[*Value]*JSONBlob{}
				}
				m.bufBlob[p] = blob
				return nilErr()
			}
		}
		m.unsupported("json.Encoder over an unmodelled writer")
		return nil
	})
	reg("(*bytes.Buffer).Bytes", func(m *Machine, fn *ssa.Function, a []Value) Value {
		if p, ok := a[0].(*Value); ok {
			if b, has := m.bufBlob[p]; has {
				return b
			}
		}
		m.unsupported("(*bytes.Buffer).Bytes: interpreted from the library source")
		return nil
	})
	reg("(*bytes.Buffer).Len", func(m *Machine, fn *ssa.Function, a []Value) Value {
		if p, ok := a[0].(*Value); ok {
			if b, has := m.bufBlob[p]; has {
				return jsonLen(b)
			}
		}
		m.unsupported("(*bytes.Buffer).Len: interpreted from the library source")
		return nil
	})

	// ------------------------------------------------------------ bufio.Writer (pass-through)
	mkBufW := func(m *Machine, fn *ssa.Function, a []Value) Value {
		return &Ext{Kind: "bufwriter", F: map[string]Value{"w": a[0]}}
	}
	reg("bufio.NewWriter", mkBufW)
	reg("bufio.NewWriterSize", mkBufW)
	bufWrite := func(m *Machine, fn *ssa.Function, a []Value) Value {
		bw, _ := a[0].(*Ext)
		if bw != nil {
			m.logAccess(true, bw, "bufio.Writer write")
		}
		var n Value = int64(0)
		if bw != nil {
			if f := fileOf(bw.F["w"]); f != nil {
				d := a[1]
				if _, isStr := d.(string); !isStr {
					if _, isSym := d.(*sym.Str); !isSym {
						d = m.bytesToData(d)
					}
				}
				r := intrinsics["(*os.File).WriteString"](m, fn, []Value{f, d}).(Tuple)
				return r
			}
		}
		return Tuple{n, nilErr()}
	}
	reg("(*bufio.Writer).Write", bufWrite)
	reg("(*bufio.Writer).WriteString", bufWrite)
	reg("(*bufio.Writer).Flush", func(m *Machine, fn *ssa.Function, a []Value) Value {
		if bw, ok := a[0].(*Ext); ok && bw != nil {
			m.logAccess(true, bw, "bufio.Writer flush")
		}
		return nilErr()
	})
	reg("(*bufio.Writer).WriteByte", func(m *Machine, fn *ssa.Function, a []Value) Value { return nilErr() })
	reg("(*bufio.Writer).Buffered", func(m *Machine, fn *ssa.Function, a []Value) Value { return int64(0) })

	// ------------------------------------------------------------ sync
	reg("(*sync.Once).Do", func(m *Machine, fn *ssa.Function, a []Value) Value {
		p := a[0].(*Value)
		if m.onceDone == nil {
			m.onceDone = map[*Value]bool{}
		}
		if m.onceDone[p] {
			return nil
		}
		m.onceDone[p] = true
		m.callValue(a[1], nil, nil)
		return nil
	})
	// read locks are taken exclusively (a sound over-approximation of blocking for code that
	// does not re-enter the read lock)
	reg("(*sync.RWMutex).RLock", intrinsics["(*sync.Mutex).Lock"])
	reg("(*sync.RWMutex).RUnlock", intrinsics["(*sync.Mutex).Unlock"])
	for _, w := range []struct {
		suffix string
		t      types.Type
	}{{"Int32", types.Typ[types.Int32]}, {"Int64", types.Typ[types.Int64]}, {"Uint32", types.Typ[types.Uint32]}, {"Uint64", types.Typ[types.Uint64]}} {
		w := w
		reg("sync/atomic.Add"+w.suffix, func(m *Machine, fn *ssa.Function, a []Value) Value {
			p := a[0].(*Value)
			*p = m.binop(token.ADD, w.t, *p, a[1], nil)
			return *p
		})
		reg("sync/atomic.Load"+w.suffix, func(m *Machine, fn *ssa.Function, a []Value) Value { return *(a[0].(*Value)) })
		reg("sync/atomic.Store"+w.suffix, func(m *Machine, fn *ssa.Function, a []Value) Value { *(a[0].(*Value)) = a[1]; return nil })
		reg("sync/atomic.Swap"+w.suffix, func(m *Machine, fn *ssa.Function, a []Value) Value {
			p := a[0].(*Value)
			old := *p
			*p = a[1]
			return old
		})
		reg("sync/atomic.CompareAndSwap"+w.suffix, func(m *Machine, fn *ssa.Function, a []Value) Value {
			p := a[0].(*Value)
			if m.DecideV(m.eqValue(*p, a[1])) {
				*p = a[2]
				return true
			}
			return false
		})
	}

	// ------------------------------------------------------------ time
	reg("(time.Time).Add", func(m *Machine, fn *ssa.Function, a []Value) Value {
		t := a[0].(Struct)
		return Struct{t[0], m.binop(token.ADD, types.Typ[types.Int64], t[1], a[1], nil), t[2]}
	})
	reg("(time.Time).Unix", func(m *Machine, fn *ssa.Function, a []Value) Value {
		return m.binop(token.QUO, types.Typ[types.Int64], a[0].(Struct)[1], int64(1e9), nil)
	})
	reg("(time.Time).UnixMilli", func(m *Machine, fn *ssa.Function, a []Value) Value {
		return m.binop(token.QUO, types.Typ[types.Int64], a[0].(Struct)[1], int64(1e6), nil)
	})
	reg("(time.Time).UTC", func(m *Machine, fn *ssa.Function, a []Value) Value { return a[0] })
	reg("(time.Time).Local", func(m *Machine, fn *ssa.Function, a []Value) Value { return a[0] })
	reg("(time.Time).Round", func(m *Machine, fn *ssa.Function, a []Value) Value { return a[0] })
	reg("(time.Time).Truncate", func(m *Machine, fn *ssa.Function, a []Value) Value { return a[0] })
	reg("(time.Duration).Nanoseconds", func(m *Machine, fn *ssa.Function, a []Value) Value { return a[0] })
	reg("(time.Duration).Milliseconds", func(m *Machine, fn *ssa.Function, a []Value) Value {
		return m.binop(token.QUO, types.Typ[types.Int64], a[0], int64(1e6), nil)
	})
	// timers fire "eventually": the channel already holds the tick, so a select that has
	// other ready cases may take either, and one that has none takes the timer
	after := func(m *Machine) *Chan {
		ch := &Chan{cap: 1}
		ch.buf = append(ch.buf, Struct{int64(0), m.now(), (*Value)(nil)})
		return ch
	}
	reg("time.After", func(m *Machine, fn *ssa.Function, a []Value) Value { return after(m) })
	reg("time.Tick", func(m *Machine, fn *ssa.Function, a []Value) Value { return after(m) })
	reg("time.NewTimer", func(m *Machine, fn *ssa.Function, a []Value) Value {
		p := new(Value)
		*p = Struct{after(m), nil}
		return p
	})
	reg("(*time.Timer).Stop", func(m *Machine, fn *ssa.Function, a []Value) Value { return true })
	reg("(*time.Timer).Reset", func(m *Machine, fn *ssa.Function, a []Value) Value { return true })

	// ------------------------------------------------------------ bytes (concrete)
	bb := func(name string, f func(x, y []byte) Value) {
		reg(name, func(m *Machine, fn *ssa.Function, a []Value) Value {
			if bx, isX := a[0].(*JSONBlob); isX {
				if by, isY := a[1].(*JSONBlob); isY && (name == "internal/bytealg.Equal" || name == "bytes.Equal") {
					return m.deepEq(bx.Snap, by.Snap, 0)
				}
			}
			x, ok1 := concreteBytes(a[0])
			y, ok2 := concreteBytes(a[1])
			if !ok1 || !ok2 {
				// symbolic bytes: as strings
				xs, isX := a[0].(*SymBytes)
				ys, isY := a[1].(*SymBytes)
				if name == "internal/bytealg.Equal" || name == "bytes.Equal" {
					var l, r Value
					switch {
					case isX:
						l = xs.S
					case ok1:
						l = string(x)
					}
					switch {
					case isY:
						r = ys.S
					case ok2:
						r = string(y)
					}
					if l != nil && r != nil {
						return m.eqValue(l, r)
					}
				}
				m.unsupported("%s on symbolic bytes", name)
			}
			return f(x, y)
		})
	}
	bb("internal/bytealg.Equal", func(x, y []byte) Value { return bytes.Equal(x, y) })
	bb("bytes.Equal", func(x, y []byte) Value { return bytes.Equal(x, y) })
	bb("internal/bytealg.Index", func(x, y []byte) Value { return int64(bytes.Index(x, y)) })
	bb("internal/bytealg.Compare", func(x, y []byte) Value { return int64(bytes.Compare(x, y)) })
	bb("bytes.Compare", func(x, y []byte) Value { return int64(bytes.Compare(x, y)) })
	bc := func(name string, f func(x []byte, c byte) Value) {
		reg(name, func(m *Machine, fn *ssa.Function, a []Value) Value {
			x, ok := concreteBytes(a[0])
			c, okc := a[1].(int64)
			if !ok && okc {
				// symbolic bytes: as a symbolic string
				var st *sym.Str
				switch b := a[0].(type) {
				case *SymBytes:
					st = b.S
					if b.mat != nil {
						st = m.convertBytesToStr(b.mat).(*sym.Str)
					}
				case Slice:
					st, _ = m.convertBytesToStr(b).(*sym.Str)
				}
				if st != nil {
					needle := string([]byte{byte(c)})
					switch {
					case strings.HasSuffix(name, ".IndexByte"):
						return m.normScalar(m.C.Sext(m.C.IndexOf(st, needle), 32))
					case strings.HasSuffix(name, ".LastIndexByte"):
						return m.normScalar(m.C.Sext(m.C.LastIndexOf(st, needle), 32))
					case strings.HasSuffix(name, ".Count"):
						return intrinsics["internal/bytealg.CountString"](m, fn, []Value{st, int64(c)})
					}
				}
			}
			if !ok || !okc {
				m.unsupported("%s on symbolic bytes", name)
			}
			return f(x, byte(c))
		})
	}
	bc("internal/bytealg.IndexByte", func(x []byte, c byte) Value { return int64(bytes.IndexByte(x, c)) })
	bc("internal/bytealg.LastIndexByte", func(x []byte, c byte) Value { return int64(bytes.LastIndexByte(x, c)) })
	bc("internal/bytealg.Count", func(x []byte, c byte) Value { return int64(bytes.Count(x, []byte{c})) })
}

// deepEq: structural equality of two value graphs (snapshots); symbolic scalars are decided.
func (m *Machine) deepEq(a, b Value, d int) bool {
	if d > 40 {
		return false
	}
	switch x := a.(type) {
	case *Value:
		y, ok := b.(*Value)
		if !ok {
			return false
		}
		if x == nil || y == nil {
			return x == nil && y == nil
		}
		return m.deepEq(*x, *y, d+1)
	case Struct:
		y, ok := b.(Struct)
		if !ok || len(x) != len(y) {
			return false
		}
		for i := range x {
			if !m.deepEq(x[i], y[i], d+1) {
				return false
			}
		}
		return true
	case Slice:
		y, ok := b.(Slice)
		if !ok || len(x) != len(y) {
			return false
		}
		for i := range x {
			if !m.deepEq(x[i], y[i], d+1) {
				return false
			}
		}
		return true
	case Array:
		y, ok := b.(Array)
		if !ok || len(x) != len(y) {
			return false
		}
		for i := range x {
			if !m.deepEq(x[i], y[i], d+1) {
				return false
			}
		}
		return true
	case *Map:
		y, ok := b.(*Map)
		if !ok {
			return false
		}
		if x == nil || y == nil {
			return (x == nil || x.Len() == 0) && (y == nil || y.Len() == 0)
		}
		if x.Len() != y.Len() {
			return false
		}
		for i, k := range x.keys {
			if _, live := m.mapGetNoFork(x, k); !live {
				continue
			}
			yv, has := m.mapGet(y, k)
			if !has || !m.deepEq(x.vals[i], yv, d+1) {
				return false
			}
		}
		return true
	case Iface:
		y, ok := b.(Iface)
		if !ok {
			return false
		}
		if x.T == nil || y.T == nil {
			return x.T == nil && y.T == nil
		}
		return m.deepEq(x.V, y.V, d+1)
	case nil:
		return b == nil
	}
	switch b.(type) {
	case *Value, Struct, Slice, Array, *Map, Iface:
		return false
	}
	return m.DecideV(m.eqValue(a, b))
}
