package gose

import (
	"fmt"
	"go/types"
	"sort"
	"strings"
	"time"

	"golang.org/x/tools/go/ssa"

	"verif/engine/smt"
	"verif/engine/sym"
)

// ---------------------------------------------------------------- path control

// pathAbort unwinds the whole path (not an interpreted panic).
type pathAbort struct {
	status string // "assume", "violation", "unsupported", "done", "limit"
	msg    string
}

// runAbort unwinds the owner goroutine of a vxRun to its vxRun frame.
type runAbort struct{ run *Run }

// gDie unwinds a killed goroutine's host stack.
type gDie struct{}

// goPanic is an interpreted Go panic.
type goPanic struct {
	val Value
	msg string
}

type Violation struct {
	AssertID string            `json:"assert"`
	Msg      string            `json:"msg,omitempty"`
	Model    map[string]uint64 `json:"-"`
	Inputs   map[string]interface{} `json:"inputs"`
	Prefix   string            `json:"decisions"`
	Trace    []string          `json:"trace,omitempty"`
}

type InputDecl struct {
	Name string
	Kind string // "int", "bool", "str", "choice"
	Bits int
	Max  int
	Str  *sym.Str
	Term *sym.Term
}

// Run is an execution scope opened by vxRun.
type Run struct {
	id    int
	owner *G
	finished bool
	kind  string // "", "returned", "exit", "panic", "killed", "deadlock"
	code  int64
	msg   string
	gs    []*G
}

type gstate int

const (
	gRunnable gstate = iota
	gRunning
	gBlocked
	gDead
)

type wakeMsg int

const (
	wakeRun wakeMsg = iota
	wakeKill
	wakeDie
)

type G struct {
	id     int
	state  gstate
	wake   chan wakeMsg
	run    *Run
	what   string // description of blocking op
	epoch  int
	name   string
	depth  int
	stack  []*ssa.Function
	panicking *goPanic // the panic being unwound (deferred calls are running)
	recovered bool
}

type Machine struct {
	Prog *ssa.Program
	C    *sym.Ctx
	S    *smt.Solver
	Cfg  *Config

	// path state
	prefix    []Dec
	decisions []Dec
	pending   [][]Dec // alternatives discovered on this path
	pc        []*sym.Term
	inputs    []*InputDecl
	inputIdx  map[string]*InputDecl
	reached   map[string]bool
	asserts   map[string]int // id -> number of times discharged
	assertsConcrete map[string]int
	violation *Violation
	inconclusive []string
	steps     int64
	trace     []string

	globals map[*ssa.Global]*Value
	gs      []*G
	cur     *G
	runq    []*G
	curRun  *Run
	nrun    int
	mutexW  map[*Value][]*G
	wgCount map[*Value]int64
	wgW     map[*Value][]*G
	preemptBudget int
	mapOrderSym   map[string]bool // function names whose map ranges get symbolic order
	fresh   int

	Env     *World // environment models (fs, exec, clock, ...)
	Funcs   map[*ssa.Function]bool // functions executed (for evidence)
	hashApps []hashApp
	initDone map[*ssa.Package]bool
	userData map[string]Value
	pendingAbort *pathAbort
	Fixed        map[string]Value
	model        map[string]uint64 // a model of pc (nil if unknown)
	modelMemo    map[*sym.Term]uint64
	candModel    map[string]uint64
	candTerm     *sym.Term
	CacheHits    int
	CrossKind    string
	CrossStats   *smt.Stats
	CrossN       int
	CrossUnknown int
	knownW       map[string]*Violation
	onPending    func([]Dec)
	inIntrinsic  *ssa.Function
	decided      map[*sym.Term]bool
	builders     map[*Value]Value // strings.Builder contents
	traceChans   map[*Chan]bool   // shared objects in thread-trace mode: operations are recorded, not executed
	traceMutex   map[*Value]bool
	SyncTrace    []string
	Emitted      []string
	mutexNames   map[*Value]string
	traceAllMutex bool
	domPending   []domFact
	race         *raceLog
	raceAll      bool
	curSendEv    *rEvent
	lastRecvMatch *rEvent
	RaceReports  []RaceReport
	RaceStats    RaceStats
	RaceSolverStats *smt.Stats
	lastRun      *Run
	mapOrderRev  bool
	idN          int
	extTypeTab   map[string]types.Type
	onceDone     map[*Value]bool
	bufBlob      map[*Value]*JSONBlob // in-memory writers that hold a JSON snapshot
	merge        *mergeScope // innermost merge scope (merge.go)
	Merged       int
	LoopMemoHits int
	NoMerge      bool
	MergeAborts  int
}

type hashApp struct {
	in  *sym.Str
	out []*sym.Term
}

type Config struct {
	MaxSteps      int64
	SolverKind    string
	TimeoutMS     int
	Verbose       bool
	TraceCalls    bool
	IntBits       int
}

func (m *Machine) unsupported(format string, a ...interface{}) {
	if m.inIntrinsic != nil {
		m.inIntrinsic = nil
		panic(intrinsicFallback{})
	}
	panic(pathAbort{"unsupported", fmt.Sprintf(format, a...)})
}

func (m *Machine) tracef(format string, a ...interface{}) {
	if len(m.trace) < 400 {
		m.trace = append(m.trace, fmt.Sprintf(format, a...))
	}
}

// ---------------------------------------------------------------- solver interaction

func (m *Machine) assertPC(t *sym.Term) {
	if t.IsTrue() {
		return
	}
	if m.merge != nil {
		panic(mergeAbort{"path condition changed inside a merge scope"})
	}
	m.pc = append(m.pc, t)
	m.S.Assert(t)
	m.C.LearnFact(t)
	if m.model != nil && sym.Eval(t, m.model, m.modelMemo) != 1 {
		m.model = nil
	}
	if m.model == nil && m.candModel != nil && m.candTerm == t {
		m.model, m.modelMemo = m.candModel, map[*sym.Term]uint64{}
	}
	m.candModel, m.candTerm = nil, nil
}

// feasible: is pc ∧ t satisfiable? Unknown counts as feasible but marks the path inconclusive.
func (m *Machine) feasible(t *sym.Term) bool {
	if t.IsTrue() {
		return true
	}
	if t.IsFalse() {
		return false
	}
	if m.merge != nil {
		// inside a merge scope the local decisions are part of the context
		local := []*sym.Term{t}
		for s := m.merge; s != nil; s = s.parent {
			local = append(local, s.pc...)
		}
		return m.mergeFeasible(m.C.And(local...))
	}
	if m.model != nil && sym.Eval(t, m.model, m.modelMemo) == 1 {
		m.CacheHits++
		return true
	}
	r := m.S.CheckAssuming(t)
	if r == smt.Sat {
		if mod, err := m.S.Model(m.C.Vars); err == nil {
			m.candModel, m.candTerm = mod, t
		}
	}
	if r == smt.Unknown {
		m.inconclusive = append(m.inconclusive, "solver unknown on feasibility query: "+m.S.LastErr)
		if m.S.Dead() {
			panic(pathAbort{"unsupported", "solver died: " + m.S.LastErr})
		}
		return true
	}
	return r == smt.Sat
}

// Decide resolves a symbolic condition, forking the path if both sides are feasible.
func (m *Machine) Decide(cond *sym.Term) bool {
	if cond.IsTrue() {
		return true
	}
	if cond.IsFalse() {
		return false
	}
	if v, ok := m.decided[cond]; ok {
		return v
	}
	if m.merge != nil {
		return m.mergeDecide(cond)
	}
	idx := len(m.decisions)
	var val bool
	if idx < len(m.prefix) {
		if m.prefix[idx].K != 0 {
			m.unsupported("decision replay out of sync (expected a branch decision)")
		}
		val = m.prefix[idx].V == 1
	} else {
		if m.feasible(cond) {
			if m.feasible(m.C.Not(cond)) {
				alt := append(append([]Dec(nil), m.decisions...), Dec{V: 0})
				m.addPending(alt)
			}
			val = true
		} else {
			val = false
		}
	}
	m.decided[cond] = val
	m.decided[m.C.Not(cond)] = !val
	if val {
		m.decisions = append(m.decisions, Dec{V: 1})
		m.assertPC(cond)
	} else {
		m.decisions = append(m.decisions, Dec{V: 0})
		m.assertPC(m.C.Not(cond))
	}
	return val
}

// DecideV accepts a concrete bool or a term.
func (m *Machine) DecideV(v Value) bool {
	switch x := v.(type) {
	case bool:
		return x
	case *sym.Term:
		return m.Decide(x)
	}
	panic(fmt.Sprintf("DecideV: %T", v))
}

// Choose returns a value in [0,n) as a recorded symbolic choice.
func (m *Machine) Choose(name string, n int) int {
	if n <= 1 {
		return 0
	}
	m.fresh++
	vn := fmt.Sprintf("%s#%d", name, m.fresh)
	v := m.C.Var(vn, 8)
	m.declInput(&InputDecl{Name: vn, Kind: "choice", Bits: 8, Term: v})
	m.assertPC(m.C.Ult(v, m.C.BV(8, uint64(n))))
	for i := 0; i < n-1; i++ {
		if m.Decide(m.C.Eq(v, m.C.BV(8, uint64(i)))) {
			return i
		}
	}
	return n - 1
}

// Dec is one recorded decision of a path: a branch (K=0, V=0/1), a concretised value
// (K=1, V=value) or the request to concretise to a value not in X (K=2).
type Dec struct {
	K int8
	V int64
	X []int64
}

func DecString(ds []Dec) string {
	var sb strings.Builder
	for _, d := range ds {
		switch d.K {
		case 0:
			sb.WriteByte(byte('0' + d.V))
		case 1:
			fmt.Fprintf(&sb, "(=%d)", d.V)
		default:
			fmt.Fprintf(&sb, "(!%d)", len(d.X))
		}
	}
	s := sb.String()
	if len(s) > 160 {
		return s[:70] + fmt.Sprintf("...[%d]...", len(ds)) + s[len(s)-70:]
	}
	return s
}

// Concretize picks a concrete value for a symbolic integer (forking over the others).
func (m *Machine) Concretize(t *sym.Term, signed bool) int64 {
	ret := func(u uint64) int64 {
		k := m.C.BV(t.Width, u)
		if signed {
			return k.SInt()
		}
		return int64(k.Val)
	}
	if t.IsConst() {
		return ret(t.Val)
	}
	c := m.C
	idx := len(m.decisions)
	var excl []int64
	if idx < len(m.prefix) {
		d := m.prefix[idx]
		switch d.K {
		case 1:
			m.decisions = append(m.decisions, d)
			m.assertPC(c.Eq(t, c.BV(t.Width, uint64(d.V))))
			return ret(uint64(d.V))
		case 2:
			excl = d.X
		default:
			m.unsupported("decision replay out of sync (expected a concretisation)")
		}
	}
	ne := c.T
	for _, x := range excl {
		ne = c.And(ne, c.Not(c.Eq(t, c.BV(t.Width, uint64(x)))))
	}
	mod, r := m.modelFor(ne, collectVars(t))
	if r != smt.Sat {
		m.unsupported("concretize: solver says %v", r)
	}
	v := sym.Eval(t, mod, map[*sym.Term]uint64{})
	excl2 := append(append([]int64(nil), excl...), int64(v))
	ne2 := c.And(ne, c.Not(c.Eq(t, c.BV(t.Width, v))))
	if m.feasible(ne2) {
		alt := append(append([]Dec(nil), m.decisions...), Dec{K: 2, X: excl2})
		m.addPending(alt)
	}
	m.decisions = append(m.decisions, Dec{K: 1, V: int64(v)})
	m.assertPC(c.Eq(t, c.BV(t.Width, v)))
	return ret(v)
}

func (m *Machine) modelFor(extra *sym.Term, vars []*sym.Term) (map[string]uint64, smt.Result) {
	m.S.Push()
	defer m.S.Pop()
	if extra != nil {
		m.S.Assert(extra)
	}
	r := m.S.Check()
	if r != smt.Sat {
		return nil, r
	}
	mod, err := m.S.Model(vars)
	if err != nil {
		return nil, smt.Unknown
	}
	return mod, smt.Sat
}

func (m *Machine) addPending(alt []Dec) {
	if m.onPending != nil {
		m.onPending(alt)
		return
	}
	m.pending = append(m.pending, alt)
}

func collectVars(t *sym.Term) []*sym.Term {
	seen := map[*sym.Term]bool{}
	var out []*sym.Term
	var rec func(x *sym.Term)
	rec = func(x *sym.Term) {
		if seen[x] {
			return
		}
		seen[x] = true
		if x.Op == sym.OpVar {
			out = append(out, x)
		}
		for _, a := range x.Args {
			rec(a)
		}
	}
	rec(t)
	return out
}

func (m *Machine) declInput(d *InputDecl) {
	if m.inputIdx[d.Name] != nil {
		return
	}
	m.inputIdx[d.Name] = d
	m.inputs = append(m.inputs, d)
}

// Assume adds a constraint; the path is dropped if it becomes infeasible.
func (m *Machine) Assume(v Value) {
	switch x := v.(type) {
	case bool:
		if !x {
			panic(pathAbort{"assume", ""})
		}
	case *sym.Term:
		if x.IsFalse() {
			panic(pathAbort{"assume", ""})
		}
		if x.IsTrue() {
			return
		}
		// replayed prefixes were feasible when created, but an assume still needs a check
		if !m.feasible(x) {
			panic(pathAbort{"assume", ""})
		}
		m.assertPC(x)
	default:
		panic(fmt.Sprintf("Assume: %T", v))
	}
}

// modelNow extracts a model of pc ∧ extra.
func (m *Machine) modelNow(extra *sym.Term) (map[string]uint64, smt.Result) {
	m.S.Push()
	defer m.S.Pop()
	if extra != nil {
		m.S.Assert(extra)
	}
	r := m.S.Check()
	if r != smt.Sat {
		return nil, r
	}
	mod, err := m.S.Model(m.C.Vars)
	if err != nil {
		return nil, smt.Unknown
	}
	return mod, smt.Sat
}

func (m *Machine) inputsFromModel(mod map[string]uint64) map[string]interface{} {
	out := map[string]interface{}{}
	memo := map[*sym.Term]uint64{}
	for _, d := range m.inputs {
		switch d.Kind {
		case "str":
			out[d.Name] = sym.EvalStr(d.Str, mod, memo)
		case "bool":
			out[d.Name] = sym.Eval(d.Term, mod, memo) == 1
		default:
			v := sym.Eval(d.Term, mod, memo)
			out[d.Name] = int64(v)
		}
	}
	return out
}

// Assert checks a property on the current path.
func (m *Machine) Assert(v Value, id string, msg string) {
	var neg *sym.Term
	switch x := v.(type) {
	case bool:
		if x {
			m.assertsConcrete[id]++
			return
		}
		neg = m.C.T
	case *sym.Term:
		if x.IsTrue() {
			m.assertsConcrete[id]++
			return
		}
		neg = m.C.Not(x)
	default:
		panic(fmt.Sprintf("Assert: %T", v))
	}
	mod, r := m.modelNow(neg)
	switch r {
	case smt.Unsat:
		if m.CrossKind != "" {
			m.crossCheck(neg, id)
		}
		m.asserts[id]++
		// the assertion holds on this path; keep it as a fact
		if t, ok := v.(*sym.Term); ok {
			m.pc = append(m.pc, t)
			m.S.Assert(t)
		}
		return
	case smt.Unknown:
		m.inconclusive = append(m.inconclusive, fmt.Sprintf("assert %s: solver unknown (%s)", id, m.S.LastErr))
		if m.S.Dead() {
			panic(pathAbort{"unsupported", "solver died: " + m.S.LastErr})
		}
		return
	}
	m.violation = &Violation{AssertID: id, Msg: msg, Model: mod, Inputs: m.inputsFromModel(mod),
		Prefix: DecString(m.decisions), Trace: append([]string(nil), m.trace...)}
	panic(pathAbort{"violation", id})
}

func (m *Machine) CrossStatsOrNew() *smt.Stats {
	if m.RaceSolverStats == nil {
		m.RaceSolverStats = &smt.Stats{}
	}
	return m.RaceSolverStats
}

// crossCheck re-decides an unsat assertion query on a second solver.
func (m *Machine) crossCheck(neg *sym.Term, id string) {
	s2, err := smt.Start(m.CrossKind, 60*time.Second, m.CrossStats)
	if err != nil {
		m.inconclusive = append(m.inconclusive, "cross solver: "+err.Error())
		return
	}
	defer s2.Close()
	for _, t := range m.pc {
		s2.Assert(t)
	}
	s2.Assert(neg)
	r := s2.Check()
	switch r {
	case smt.Unsat:
		m.CrossN++ // re-decided with the same answer
	case smt.Sat:
		// the two solvers disagree: the verdict cannot be trusted
		m.inconclusive = append(m.inconclusive, fmt.Sprintf("assert %s: primary solver says unsat, %s says sat", id, m.CrossKind))
	default:
		// the second solver did not finish (time-out): the primary verdict stands, the
		// query is simply not counted as cross-checked
		m.CrossUnknown++
	}
}

// Known evaluates the class predicate of a listed known finding: a counterexample is
// recorded as a witness, the path goes on.
func (m *Machine) Known(v Value, id string) {
	var neg *sym.Term
	switch x := v.(type) {
	case bool:
		if x {
			return
		}
		neg = m.C.T
	case *sym.Term:
		if x.IsTrue() {
			return
		}
		neg = m.C.Not(x)
	}
	if m.knownW[id] != nil {
		return
	}
	mod, r := m.modelNow(neg)
	if r == smt.Sat {
		m.knownW[id] = &Violation{AssertID: id, Model: mod, Inputs: m.inputsFromModel(mod), Prefix: DecString(m.decisions)}
	} else if r == smt.Unknown {
		m.inconclusive = append(m.inconclusive, fmt.Sprintf("known-finding predicate %s: solver unknown", id))
	}
}

// ---------------------------------------------------------------- goroutines
//
// Exactly one interpreted goroutine runs at a time (it "holds the baton"). Every
// goroutine has a host goroutine parked on g.wake while it does not hold the baton.

func (m *Machine) newG(name string) *G {
	g := &G{id: len(m.gs), wake: make(chan wakeMsg, 1), run: m.curRun, name: name}
	m.gs = append(m.gs, g)
	if m.curRun != nil {
		m.curRun.gs = append(m.curRun.gs, g)
	}
	return g
}

// spawn starts fn(args) as a new interpreted goroutine (runnable, not yet running).
func (m *Machine) spawn(fn Value, args []Value, name string) {
	g := m.newG(name)
	g.state = gRunnable
	m.runq = append(m.runq, g)
	if m.race != nil {
		m.raceEvent(evGo, nil).child = g.id
	}
	go func() {
		msg := <-g.wake
		if msg != wakeRun {
			g.state = gDead
			return
		}
		defer m.gExit(g)
		g.state = gRunning
		m.cur = g
		m.callValue(fn, args, nil)
	}()
}

// gExit runs when a goroutine's host goroutine finishes (normally or by unwinding).
func (m *Machine) gExit(g *G) {
	r := recover()
	switch x := r.(type) {
	case nil:
		g.state = gDead
		m.schedule()
	case gDie:
		g.state = gDead // the baton is elsewhere
	case pathAbort:
		g.state = gDead
		m.abortPath(x)
	case goPanic:
		g.state = gDead
		m.endRun(g, "panic", 2, x.msg)
	default:
		g.state = gDead
		m.abortPath(pathAbort{"unsupported", fmt.Sprintf("interpreter crash in goroutine %s: %v", g.name, r)})
	}
}

// abortPath is called by a non-main goroutine that holds the baton: main unwinds the path.
func (m *Machine) abortPath(pa pathAbort) {
	if m.pendingAbort == nil {
		m.pendingAbort = &pa
	}
	main := m.gs[0]
	m.removeRunq(main)
	main.wake <- wakeKill
}

// endRun terminates the run of goroutine g (which holds the baton) with the given kind.
// If g owns the run it unwinds to its vxRun frame; otherwise the owner is woken and g
// must stop (the caller panics gDie unless it is already unwinding).
func (m *Machine) endRun(g *G, kind string, code int64, msg string) {
	run := g.run
	if run == nil || run.finished {
		if g.id == 0 {
			panic(pathAbort{"unsupported", fmt.Sprintf("%s outside vxRun: %s", kind, msg)})
		}
		m.abortPath(pathAbort{"unsupported", fmt.Sprintf("%s outside vxRun: %s", kind, msg)})
		return
	}
	if run.kind == "" {
		run.kind, run.code, run.msg = kind, code, msg
	}
	for _, og := range run.gs {
		if og != run.owner && og != g {
			m.kill(og)
		}
	}
	if g == run.owner {
		panic(runAbort{run})
	}
	g.state = gDead
	owner := run.owner
	m.removeRunq(owner)
	owner.wake <- wakeKill
}

func (m *Machine) kill(g *G) {
	if g.state == gDead {
		return
	}
	g.state = gDead
	g.epoch++
	m.removeRunq(g)
	// its host goroutine stays parked until cleanup
}

func (m *Machine) removeRunq(g *G) {
	for i, x := range m.runq {
		if x == g {
			m.runq = append(m.runq[:i], m.runq[i+1:]...)
			return
		}
	}
}

// makeRunnable wakes a blocked goroutine (it will retry / complete its operation).
func (m *Machine) makeRunnable(g *G) {
	if g.state == gBlocked {
		g.state = gRunnable
		m.runq = append(m.runq, g)
	}
}

func (m *Machine) blockedList(gs []*G) string {
	var bl []string
	for _, og := range gs {
		if og.state == gBlocked {
			bl = append(bl, fmt.Sprintf("g%d(%s):%s", og.id, og.name, og.what))
		}
	}
	return strings.Join(bl, "; ")
}

// schedule hands the baton to the next goroutine (possibly the caller itself, through
// its own buffered wake channel).
func (m *Machine) schedule() {
	if len(m.runq) == 0 {
		if run := m.curRun; run != nil && !run.finished && run.owner.state == gBlocked {
			if run.kind == "" {
				run.kind = "deadlock"
				run.msg = m.blockedList(run.gs)
			}
			for _, og := range run.gs {
				if og != run.owner {
					m.kill(og)
				}
			}
			run.owner.wake <- wakeKill
			return
		}
		main := m.gs[0]
		if main.state == gDead {
			return
		}
		if m.pendingAbort == nil {
			m.pendingAbort = &pathAbort{"unsupported", "harness-level deadlock: " + m.blockedList(m.gs)}
		}
		main.wake <- wakeKill
		return
	}
	sort.SliceStable(m.runq, func(i, j int) bool { return m.runq[i].id < m.runq[j].id })
	// delay-bounded scheduling: by default the lowest-numbered runnable goroutine runs;
	// while the budget lasts, every scheduling point offers the solver the choice of any
	// other runnable goroutine (each deviation costs one unit)
	k := 0
	if len(m.runq) > 1 && m.preemptBudget > 0 {
		k = m.Choose("sched", len(m.runq))
		if k != 0 {
			m.preemptBudget--
		}
	}
	g := m.runq[k]
	m.runq = append(m.runq[:k], m.runq[k+1:]...)
	g.wake <- wakeRun
}

// waitBaton parks the host goroutine until g is given the baton.
func (m *Machine) waitBaton(g *G) {
	msg := <-g.wake
	switch msg {
	case wakeRun:
		g.state = gRunning
		m.cur = g
	case wakeKill:
		g.state = gRunning
		m.cur = g
		g.epoch++
		if m.pendingAbort != nil && g.id == 0 {
			panic(*m.pendingAbort)
		}
		if g.run != nil && g.run.owner == g && !g.run.finished && g.run.kind != "" {
			panic(runAbort{g.run})
		}
		panic(pathAbort{"unsupported", "kill delivered to goroutine that cannot handle it: " + g.name})
	case wakeDie:
		panic(gDie{})
	}
}

// park blocks the current goroutine until woken.
func (m *Machine) park(what string) {
	g := m.cur
	g.state = gBlocked
	g.what = what
	m.schedule()
	m.waitBaton(g)
}

// yield lets another runnable goroutine run first.
func (m *Machine) yield() {
	g := m.cur
	if len(m.runq) == 0 {
		return
	}
	g.state = gRunnable
	m.runq = append(m.runq, g)
	m.schedule()
	m.waitBaton(g)
}

// yieldTo hands the baton to the lowest-numbered other runnable goroutine.
func (m *Machine) yieldOthers() {
	g := m.cur
	if len(m.runq) == 0 {
		return
	}
	sort.SliceStable(m.runq, func(i, j int) bool { return m.runq[i].id < m.runq[j].id })
	nxt := m.runq[0]
	m.runq = m.runq[1:]
	g.state = gRunnable
	m.runq = append(m.runq, g)
	nxt.wake <- wakeRun
	m.waitBaton(g)
}

// maybePreempt: a scheduling point before a visible operation.
func (m *Machine) maybePreempt() {
	if m.preemptBudget <= 0 || len(m.runq) == 0 {
		return
	}
	if m.Choose("preempt", 2) == 1 {
		m.preemptBudget--
		m.yieldOthers()
	}
}

// cleanup releases all parked host goroutines at the end of a path.
func (m *Machine) cleanup() {
	for _, g := range m.gs[1:] {
		select {
		case g.wake <- wakeDie:
		default:
		}
	}
}

// ---------------------------------------------------------------- channels

type waiter struct {
	g     *G
	epoch int
	ev    *rEvent
	val   Value
	ok    bool
	done  bool
	sel   *selState
	caseI int
}

type selState struct {
	ev     *rEvent
	done   bool
	chosen int
	val    Value
	ok     bool
}

type Chan struct {
	buf    []Value
	cap    int
	closed bool
	recvq  []*waiter
	sendq  []*waiter
	elem   types.Type
	id     int
	evq    []*rEvent // race log: send events of the buffered values
}

func (w *waiter) live() bool {
	if w.done {
		return false
	}
	if w.sel != nil && w.sel.done {
		return false
	}
	return w.g.state != gDead && w.epoch == w.g.epoch
}

func (c *Chan) firstLive(q *[]*waiter) *waiter {
	for len(*q) > 0 {
		w := (*q)[0]
		*q = (*q)[1:]
		if w.live() {
			return w
		}
	}
	return nil
}

func (c *Chan) hasLive(q []*waiter) bool {
	for _, w := range q {
		if w.live() {
			return true
		}
	}
	return false
}

func (c *Chan) canSend() bool {
	return c.closed || len(c.buf) < c.cap || c.hasLive(c.recvq)
}

func (c *Chan) canRecv() bool {
	return len(c.buf) > 0 || c.closed || c.hasLive(c.sendq)
}

func (m *Machine) complete(w *waiter, val Value, ok bool) {
	w.done = true
	w.val = val
	w.ok = ok
	if w.sel != nil {
		w.sel.done = true
		w.sel.ev = w.ev
		w.sel.chosen = w.caseI
		w.sel.val = val
		w.sel.ok = ok
	}
	m.makeRunnable(w.g)
}

// trySend performs a send if possible without blocking.
func (m *Machine) trySend(c *Chan, v Value) bool {
	if c.closed {
		panic(goPanic{msg: "send on closed channel"})
	}
	if w := c.firstLive(&c.recvq); w != nil {
		w.ev = m.curSendEv
		m.complete(w, v, true)
		return true
	}
	if len(c.buf) < c.cap {
		c.buf = append(c.buf, v)
		if m.race != nil {
			c.evq = append(c.evq, m.curSendEv)
		}
		return true
	}
	return false
}

func (m *Machine) tryRecv(c *Chan) (Value, bool, bool) {
	if len(c.buf) > 0 {
		v := c.buf[0]
		c.buf = c.buf[1:]
		if m.race != nil && len(c.evq) > 0 {
			m.lastRecvMatch = c.evq[0]
			c.evq = c.evq[1:]
		}
		if w := c.firstLive(&c.sendq); w != nil {
			c.buf = append(c.buf, w.val)
			if m.race != nil {
				c.evq = append(c.evq, w.ev)
			}
			m.complete(w, nil, true)
		}
		return v, true, true
	}
	if w := c.firstLive(&c.sendq); w != nil {
		v := w.val
		m.lastRecvMatch = w.ev
		m.complete(w, nil, true)
		return v, true, true
	}
	if c.closed {
		return zero(c.elem), false, true
	}
	return nil, false, false
}

func (m *Machine) chanSend(c *Chan, v Value) {
	if c != nil && m.traceChans[c] {
		m.SyncTrace = append(m.SyncTrace, "S")
		return
	}
	m.maybePreempt()
	if c == nil {
		m.park("send on nil chan")
		m.unsupported("woken from nil-channel send")
	}
	var es *rEvent
	if m.race != nil {
		es = m.raceEvent(evSendStart, c)
		m.curSendEv = es
	}
	if m.trySend(c, v) {
		if es != nil {
			m.raceEvent(evSendEnd, c).match = es
		}
		return
	}
	w := &waiter{g: m.cur, epoch: m.cur.epoch, val: v, ev: es}
	c.sendq = append(c.sendq, w)
	m.park(fmt.Sprintf("send ch%d", c.id))
	if !w.done {
		m.unsupported("spurious wakeup in send")
	}
	if !w.ok {
		panic(goPanic{msg: "send on closed channel"})
	}
	if es != nil {
		m.raceEvent(evSendEnd, c).match = es
	}
}

func (m *Machine) chanRecv(c *Chan) (Value, bool) {
	if c != nil && m.traceChans[c] {
		m.SyncTrace = append(m.SyncTrace, "R")
		return zero(c.elem), true
	}
	m.maybePreempt()
	if c == nil {
		m.park("recv on nil chan")
		m.unsupported("woken from nil-channel recv")
	}
	m.lastRecvMatch = nil
	if v, ok, done := m.tryRecv(c); done {
		if m.race != nil {
			e := m.raceEvent(evRecv, c)
			e.ok, e.match = ok, m.lastRecvMatch
		}
		return v, ok
	}
	w := &waiter{g: m.cur, epoch: m.cur.epoch}
	c.recvq = append(c.recvq, w)
	m.park(fmt.Sprintf("recv ch%d", c.id))
	if !w.done {
		m.unsupported("spurious wakeup in recv")
	}
	if m.race != nil {
		e := m.raceEvent(evRecv, c)
		e.ok, e.match = w.ok, w.ev
	}
	return w.val, w.ok
}

func (m *Machine) chanClose(c *Chan) {
	m.maybePreempt()
	if c == nil {
		panic(goPanic{msg: "close of nil channel"})
	}
	if c.closed {
		panic(goPanic{msg: "close of closed channel"})
	}
	if m.race != nil {
		m.raceEvent(evClose, c)
	}
	c.closed = true
	for {
		w := c.firstLive(&c.recvq)
		if w == nil {
			break
		}
		m.complete(w, zero(c.elem), false)
	}
	for {
		w := c.firstLive(&c.sendq)
		if w == nil {
			break
		}
		m.complete(w, nil, false)
	}
}

type selCase struct {
	ch   *Chan
	send bool
	val  Value
}

// doSelect returns (chosen index or -1 for default, received value, ok).
func (m *Machine) doSelect(cases []selCase, blocking bool) (int, Value, bool) {
	for i, sc := range cases {
		if sc.ch != nil && m.traceChans[sc.ch] {
			// thread-trace mode: only the non-blocking single-case forms are understood
			if len(cases) != 1 || blocking {
				m.unsupported("select over a traced channel with %d cases (blocking=%v)", len(cases), blocking)
			}
			if sc.send {
				m.SyncTrace = append(m.SyncTrace, "TS") // try-send
			} else {
				m.SyncTrace = append(m.SyncTrace, "TR") // try-receive
			}
			// the trace follows the branch in which the operation succeeded; both
			// outcomes have the same continuation in the code shapes accepted here
			return i, zero(sc.ch.elem), true
		}
	}
	m.maybePreempt()
	var ready []int
	for i, sc := range cases {
		if sc.ch == nil {
			continue
		}
		if sc.send && sc.ch.canSend() || !sc.send && sc.ch.canRecv() {
			ready = append(ready, i)
		}
	}
	if len(ready) > 0 {
		k := ready[m.Choose("select", len(ready))]
		sc := cases[k]
		if sc.send {
			var es *rEvent
			if m.race != nil {
				es = m.raceEvent(evSendStart, sc.ch)
				m.curSendEv = es
			}
			if !m.trySend(sc.ch, sc.val) {
				m.unsupported("select: send not possible after readiness check")
			}
			if es != nil {
				m.raceEvent(evSendEnd, sc.ch).match = es
			}
			return k, nil, false
		}
		m.lastRecvMatch = nil
		v, ok, done := m.tryRecv(sc.ch)
		if !done {
			m.unsupported("select: recv not possible after readiness check")
		}
		if m.race != nil {
			e := m.raceEvent(evRecv, sc.ch)
			e.ok, e.match = ok, m.lastRecvMatch
		}
		return k, v, ok
	}
	if !blocking {
		return -1, nil, false
	}
	st := &selState{}
	any := false
	for i, sc := range cases {
		if sc.ch == nil {
			continue
		}
		any = true
		w := &waiter{g: m.cur, epoch: m.cur.epoch, val: sc.val, sel: st, caseI: i}
		if m.race != nil && sc.send {
			// a blocked select send: the start event is recorded now, the end on completion
			w.ev = m.raceEvent(evSendStart, sc.ch)
		}
		if sc.send {
			sc.ch.sendq = append(sc.ch.sendq, w)
		} else {
			sc.ch.recvq = append(sc.ch.recvq, w)
		}
	}
	_ = any
	m.park("select")
	if !st.done {
		m.unsupported("spurious wakeup in select")
	}
	sc := cases[st.chosen]
	if sc.send {
		if !st.ok {
			panic(goPanic{msg: "send on closed channel"})
		}
		if m.race != nil {
			m.raceEvent(evSendEnd, sc.ch)
		}
		return st.chosen, nil, false
	}
	if m.race != nil {
		e := m.raceEvent(evRecv, sc.ch)
		e.ok, e.match = st.ok, st.ev
	}
	return st.chosen, st.val, st.ok
}

// ---------------------------------------------------------------- mutex / waitgroup

func (m *Machine) mutexLock(p *Value) {
	if m.traceMutex[p] || (m.traceAllMutex && len(m.traceChans) > 0) {
		m.SyncTrace = append(m.SyncTrace, "L:"+m.mutexName(p))
		return
	}
	m.maybePreempt()
	for {
		st := lockWord(p)
		if st[0].(int64) == 0 {
			st[0] = int64(1)
			if m.race != nil {
				m.raceEvent(evLock, p)
			}
			return
		}
		m.mutexW[p] = append(m.mutexW[p], m.cur)
		m.park("mutex")
	}
}

// lockWord: the struct whose first field holds the lock state (sync.Mutex itself, or the
// writer mutex embedded first in a sync.RWMutex).
func lockWord(p *Value) Struct {
	st := (*p).(Struct)
	for {
		inner, ok := st[0].(Struct)
		if !ok {
			return st
		}
		st = inner
	}
}

func (m *Machine) mutexName(p *Value) string {
	if n, ok := m.mutexNames[p]; ok {
		return n
	}
	n := fmt.Sprintf("m%d", len(m.mutexNames))
	m.mutexNames[p] = n
	return n
}

func (m *Machine) mutexUnlock(p *Value) {
	if m.traceMutex[p] || (m.traceAllMutex && len(m.traceChans) > 0) {
		m.SyncTrace = append(m.SyncTrace, "U:"+m.mutexName(p))
		return
	}
	st := lockWord(p)
	if st[0].(int64) == 0 {
		panic(goPanic{msg: "sync: unlock of unlocked mutex"})
	}
	st[0] = int64(0)
	if m.race != nil {
		m.raceEvent(evUnlock, p)
	}
	ws := m.mutexW[p]
	for len(ws) > 0 {
		g := ws[0]
		ws = ws[1:]
		if g.state == gBlocked {
			m.makeRunnable(g)
			break
		}
	}
	m.mutexW[p] = ws
}

func (m *Machine) wgAdd(p *Value, n int64) {
	if m.race != nil && n < 0 {
		m.raceEvent(evWgDone, p)
	}
	m.wgCount[p] += n
	if m.wgCount[p] < 0 {
		panic(goPanic{msg: "sync: negative WaitGroup counter"})
	}
	if m.wgCount[p] == 0 {
		for _, g := range m.wgW[p] {
			m.makeRunnable(g)
		}
		m.wgW[p] = nil
	}
}

func (m *Machine) wgWait(p *Value) {
	for m.wgCount[p] > 0 {
		m.wgW[p] = append(m.wgW[p], m.cur)
		m.park("waitgroup")
	}
	if m.race != nil {
		m.raceEvent(evWgWait, p)
	}
}
