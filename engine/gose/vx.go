package gose

import (
	"fmt"
	"path/filepath"
	"strings"

	"golang.org/x/tools/go/ssa"

	"verif/engine/sym"
)

// Character classes for vxStr.
const (
	ClassAny   = 0 // any byte 0x01..0x7f
	ClassPath  = 1 // [0-9A-Za-z/._-]  (scipipe's valid path alphabet)
	ClassName  = 2 // [0-9A-Za-z._-]   (no slash)
	ClassValue = 3 // printable ASCII without { } | and whitespace/newline
	ClassSmall = 4 // [ab./_-]  tiny path alphabet for deep bounds
	ClassPrint = 5 // printable ASCII 0x20..0x7e
	ClassSmallWS = 6 // [ab./_- \t] the tiny alphabet plus blank and tab (parameter values)
)

func (m *Machine) classPred(class int) func(ch *sym.Term) *sym.Term {
	c := m.C
	switch class {
	case ClassPath:
		return func(ch *sym.Term) *sym.Term {
			return c.Or(c.CharRange(ch, '0', '9'), c.CharRange(ch, 'A', 'Z'), c.CharRange(ch, 'a', 'z'), c.CharIn(ch, "/._-"))
		}
	case ClassName:
		return func(ch *sym.Term) *sym.Term {
			return c.Or(c.CharRange(ch, '0', '9'), c.CharRange(ch, 'A', 'Z'), c.CharRange(ch, 'a', 'z'), c.CharIn(ch, "._-"))
		}
	case ClassValue:
		return func(ch *sym.Term) *sym.Term {
			return c.And(c.CharRange(ch, 0x21, 0x7e), c.Not(c.CharIn(ch, "{}|")))
		}
	case ClassSmall:
		return func(ch *sym.Term) *sym.Term { return c.CharIn(ch, "ab./_-") }
	case ClassPrint:
		return func(ch *sym.Term) *sym.Term { return c.CharRange(ch, 0x20, 0x7e) }
	case ClassSmallWS:
		return func(ch *sym.Term) *sym.Term { return c.CharIn(ch, "ab./_- \t") }
	}
	return func(ch *sym.Term) *sym.Term { return c.CharRange(ch, 0x01, 0x7f) }
}

type domFact struct {
	ch   *sym.Term
	pred func(b byte) bool
	s    *sym.Str
	i    int
}

// flushDomains installs pending character domains for positions that are provably live
// (index < length with a constant length).
func (m *Machine) flushDomains() {
	keep := m.domPending[:0]
	for _, f := range m.domPending {
		if f.s.Len.IsConst() {
			if uint64(f.i) < f.s.Len.Val {
				m.C.SetDomain(f.ch, f.pred)
			}
			continue
		}
		keep = append(keep, f)
	}
	m.domPending = keep
}

func classBytePred(class int) func(b byte) bool {
	in := func(b byte, set string) bool { return strings.IndexByte(set, b) >= 0 }
	alnum := func(b byte) bool { return b >= '0' && b <= '9' || b >= 'A' && b <= 'Z' || b >= 'a' && b <= 'z' }
	switch class {
	case ClassPath:
		return func(b byte) bool { return alnum(b) || in(b, "/._-") }
	case ClassName:
		return func(b byte) bool { return alnum(b) || in(b, "._-") }
	case ClassValue:
		return func(b byte) bool { return b >= 0x21 && b <= 0x7e && !in(b, "{}|") }
	case ClassSmall:
		return func(b byte) bool { return in(b, "ab./_-") }
	case ClassPrint:
		return func(b byte) bool { return b >= 0x20 && b <= 0x7e }
	case ClassSmallWS:
		return func(b byte) bool { return in(b, "ab./_- \t") }
	}
	return func(b byte) bool { return b >= 1 && b <= 0x7f }
}

func (m *Machine) newSymStr(name string, max int, class int) *sym.Str {
	s, bound := m.C.StrVar(name, max)
	m.declInput(&InputDecl{Name: name, Kind: "str", Max: max, Str: s})
	m.assertPC(bound)
	// every character variable is drawn from the class alphabet, also the ones beyond the
	// (symbolic) length: those are never part of the value, and with the unguarded
	// constraint facts such as "this byte is ASCII" hold without knowing the length
	pred := m.classPred(class)
	all := m.C.T
	for _, ch := range s.Ch {
		all = m.C.And(all, pred(ch))
	}
	m.assertPC(all)
	// the same fact as syntactic knowledge for the simplifier: domains of the live chars.
	// (chars beyond the length are don't-care, restricting them too is harmless: they are
	// never part of the value; we keep the solver-side constraint guarded and only give the
	// simplifier the unguarded version for positions that are certainly live)
	cp := classBytePred(class)
	for _, ch := range s.Ch {
		m.C.SetDomain(ch, cp)
	}
	return s
}

func (m *Machine) vb(v Value) *sym.Term { return m.boolTerm(v) }

// callVx implements the harness vocabulary (functions named vx* declared without body).
func (m *Machine) callVx(fn *ssa.Function, a []Value) Value {
	c := m.C
	switch fn.Name() {
	case "vxStr":
		name := m.mustStr(a[0], "vxStr name")
		if v, ok := m.Fixed[name]; ok {
			return v.(string)
		}
		return m.newSymStr(name, int(m.toInt(a[1])), int(m.toInt(a[2])))
	case "vxInt":
		name := m.mustStr(a[0], "vxInt name")
		lo, hi := m.toInt(a[1]), m.toInt(a[2])
		if v, ok := m.Fixed[name]; ok {
			return v.(int64)
		}
		if lo == hi {
			return lo
		}
		t := c.Var(name, 32)
		m.declInput(&InputDecl{Name: name, Kind: "int", Bits: 32, Term: t})
		m.assertPC(c.And(c.Sle(c.BV(32, uint64(lo)), t), c.Sle(t, c.BV(32, uint64(hi)))))
		return t
	case "vxInt64":
		name := m.mustStr(a[0], "vxInt64 name")
		lo, hi := m.toInt(a[1]), m.toInt(a[2])
		if v, ok := m.Fixed[name]; ok {
			return v.(int64)
		}
		t := c.Var(name, 64)
		m.declInput(&InputDecl{Name: name, Kind: "int", Bits: 64, Term: t})
		m.assertPC(c.And(c.Sle(c.BV(64, uint64(lo)), t), c.Sle(t, c.BV(64, uint64(hi)))))
		return t
	case "vxTime":
		// a time.Time whose instant is symbolic in [lo,hi] (0 = the zero time)
		name := m.mustStr(a[0], "vxTime name")
		lo, hi := m.toInt(a[1]), m.toInt(a[2])
		t := c.Var(name, 64)
		m.declInput(&InputDecl{Name: name, Kind: "int", Bits: 64, Term: t})
		m.assertPC(c.And(c.Sle(c.BV(64, uint64(lo)), t), c.Sle(t, c.BV(64, uint64(hi)))))
		return Struct{int64(0), t, (*Value)(nil)}
	case "vxBool":
		name := m.mustStr(a[0], "vxBool name")
		if v, ok := m.Fixed[name]; ok {
			return v.(bool)
		}
		t := c.Var(name, 0)
		m.declInput(&InputDecl{Name: name, Kind: "bool", Term: t})
		return t
	case "vxChoice":
		name := m.mustStr(a[0], "vxChoice name")
		if v, ok := m.Fixed[name]; ok {
			return v.(int64)
		}
		return int64(m.Choose(name, int(m.toInt(a[1]))))
	case "vxConcrete":
		return m.toInt(a[0])
	case "vxShape":
		// case-split on the shape of a symbolic string: its length and which positions hold
		// one of the structural characters; the other characters stay symbolic
		v := m.normScalar(a[0])
		st, ok := v.(*sym.Str)
		if !ok {
			return v
		}
		structural := m.mustStr(a[1], "vxShape chars")
		n := int(m.Concretize(c.Zext(st.Len, 32), false))
		// the length is now a constant: class facts of the live characters become
		// syntactic knowledge of the simplifier
		for _, f := range m.domPending {
			if f.s.Len == st.Len && f.i < n {
				m.C.SetDomain(f.ch, f.pred)
			}
		}
		r := &sym.Str{Len: c.L(n), Ch: make([]*sym.Term, n)}
		for i := 0; i < n; i++ {
			r.Ch[i] = st.Ch[i]
			if st.Ch[i].IsConst() {
				continue
			}
			for k := 0; k < len(structural); k++ {
				kc := c.BV(8, uint64(structural[k]))
				if m.Decide(c.Eq(st.Ch[i], kc)) {
					r.Ch[i] = kc
					break
				}
			}
		}
		return m.normScalar(r)
	case "vxConcreteBool":
		return m.DecideV(a[0])
	case "vxConcreteStr":
		return m.concretizeStr(a[0])
	case "vxAssume":
		m.Assume(a[0])
		return nil
	case "vxAssert":
		m.Assert(a[0], m.mustStr(a[1], "vxAssert id"), "")
		return nil
	case "vxKnown":
		m.Known(a[0], m.mustStr(a[1], "vxKnown id"))
		return nil
	case "vxReach":
		m.reached[m.mustStr(a[0], "vxReach id")] = true
		return nil
	case "vxEmit":
		m.Emitted = append(m.Emitted, m.mustStr(a[0], "vxEmit"))
		return nil
	case "vxListing":
		root := m.Env.abs(".")
		var out Slice
		for _, p := range m.Env.subtree(root) {
			if p == root {
				continue
			}
			out = append(out, strings.TrimPrefix(p, m.Env.Cwd+"/"))
		}
		return out
	case "vxNVFile":
		p := m.Env.abs(m.mustStr(a[0], "vxNVFile"))
		m.Env.nextIno++
		m.Env.Nodes[p] = &Node{Kind: KFile, Ino: m.Env.nextIno, Pre: true, MTime: int64(1), C: &Content{Origin: "pre", Status: int64(2), ID: int64(1)}}
		return nil
	case "vxNVLines":
		p := m.Env.abs(m.mustStr(a[0], "vxNVLines"))
		m.Env.nextIno++
		ls := &Lines{}
		for _, l := range a[1].(Slice) {
			ls.L = append(ls.L, l)
		}
		m.Env.Nodes[p] = &Node{Kind: KFile, Ino: m.Env.nextIno, Pre: true, MTime: int64(1), C: &Content{Origin: "pre", Status: int64(2), Data: ls}}
		return nil
	case "vxFileLines":
		n := m.Env.node(m.Env.abs(m.mustStr(a[0], "vxFileLines")))
		if n == nil || n.C == nil {
			return Slice(nil)
		}
		return Slice(m.splitLines(n.C.Data))
	case "vxNote":
		m.tracef("note: %s", m.describe(a[0]))
		return nil
	case "vxOr":
		return m.normBool(c.Or(m.vb(a[0]), m.vb(a[1])))
	case "vxAnd":
		return m.normBool(c.And(m.vb(a[0]), m.vb(a[1])))
	case "vxNot":
		return m.normBool(c.Not(m.vb(a[0])))
	case "vxImplies":
		return m.normBool(c.Implies(m.vb(a[0]), m.vb(a[1])))
	case "vxIte":
		cond := m.vb(a[0])
		if cond.IsConst() {
			if cond.IsTrue() {
				return a[1]
			}
			return a[2]
		}
		x, y := m.strTerm(a[1]), m.strTerm(a[2])
		n := len(x.Ch)
		if len(y.Ch) > n {
			n = len(y.Ch)
		}
		r := &sym.Str{Len: c.Ite(cond, x.Len, y.Len), Ch: make([]*sym.Term, n)}
		for i := 0; i < n; i++ {
			xc, yc := c.BV(8, 0), c.BV(8, 0)
			if i < len(x.Ch) {
				xc = x.Ch[i]
			}
			if i < len(y.Ch) {
				yc = y.Ch[i]
			}
			r.Ch[i] = c.Ite(cond, xc, yc)
		}
		return r
	case "vxCleanPath":
		if s, ok := m.str(a[0]); ok {
			st := c.StrConst(s)
			return m.normBool(c.CleanPath(st))
		}
		return m.normBool(c.CleanPath(m.strTerm(a[0])))
	case "vxContains":
		return intrinsics["strings.Contains"](m, fn, a)
	case "vxHasPrefix":
		return intrinsics["strings.HasPrefix"](m, fn, a)
	case "vxHasSuffix":
		return intrinsics["strings.HasSuffix"](m, fn, a)
	case "vxIsSym":
		return isSym(m.normScalar(a[0]))
	case "vxRun":
		return m.vxRun(a[0])
	case "vxRunMsg":
		if m.lastRun != nil {
			return m.lastRun.msg
		}
		return ""
	case "vxRunCode":
		if m.lastRun != nil {
			return m.lastRun.code
		}
		return int64(0)
	case "vxTraceChan":
		if ch, ok := a[0].(Iface).V.(*Chan); ok && ch != nil {
			m.traceChans[ch] = true
			// the occupancy at the moment tracing starts (a semaphore may count free slots:
			// then the channel is created full)
			m.SyncTrace = append(m.SyncTrace, fmt.Sprintf("I:%d", len(ch.buf)))
		}
		return nil
	case "vxTraceMutex":
		if it, isI := a[0].(Iface); isI && it.T == nil {
			// nil: every mutex is traced (tc keeps those whose critical section contains an
			// operation on a traced channel)
			m.traceAllMutex = true
			return nil
		}
		if p, ok := a[0].(Iface).V.(*Value); ok && p != nil {
			m.traceMutex[p] = true
		}
		return nil
	case "vxBarrier":
		// a Go-function rendezvous: returns when k callers have arrived
		k := int(m.toInt(a[0]))
		w := m.Env
		w.barrierN++
		w.barrierWait = append(w.barrierWait, m.cur)
		for w.barrierN < k {
			m.park("barrier")
		}
		for _, g := range w.barrierWait {
			if g != m.cur {
				m.makeRunnable(g)
			}
		}
		w.barrierWait = nil
		return nil
	case "vxFieldChan":
		// the idx-th channel-typed field of the struct obj points to (so that a harness
		// need not name an unexported field)
		it, _ := a[0].(Iface)
		p, ok := it.V.(*Value)
		if !ok || p == nil {
			m.unsupported("vxFieldChan: not a pointer to a struct")
		}
		st, ok := (*p).(Struct)
		if !ok {
			m.unsupported("vxFieldChan: not a pointer to a struct")
		}
		idx := int(m.toInt(a[1]))
		for _, f := range st {
			if ch, isCh := f.(*Chan); isCh {
				if idx == 0 {
					return Iface{T: m.extType("chan"), V: ch}
				}
				idx--
			}
		}
		m.unsupported("vxFieldChan: no such channel field")
		return nil
	case "vxChanCap":
		it, _ := a[0].(Iface)
		ch, _ := it.V.(*Chan)
		if ch == nil {
			return int64(0)
		}
		return int64(ch.cap)
	case "vxTraceMark":
		m.SyncTrace = append(m.SyncTrace, m.mustStr(a[0], "vxTraceMark"))
		return nil
	case "vxRaceLog":
		if m.DecideV(a[0]) {
			m.race = newRaceLog()
		} else {
			m.race = nil
		}
		return nil
	case "vxRaceAnalyse", "vxRaceAnalyseAll":
		m.raceAll = fn.Name() == "vxRaceAnalyseAll" // also pairs inside harness code (self-tests)
		reps, st, probs := m.AnalyseRaces("z3-new", m.CrossStatsOrNew())
		if !m.raceAll {
			m.RaceReports = append(m.RaceReports, reps...)
			m.RaceStats = st
		}
		m.inconclusive = append(m.inconclusive, probs...)
		m.race = nil
		return int64(len(reps))
	case "vxYield":
		m.yield()
		return nil
	case "vxPreemptAtFS":
		m.Env.PreemptAtFS = m.DecideV(a[0])
		return nil
	case "vxPreemptBudget":
		m.preemptBudget = int(m.toInt(a[0]))
		return nil
	case "vxMapOrder":
		// symbolic iteration order for `range` over maps in the named functions ("*" = all)
		for _, n := range strings.Split(m.mustStr(a[0], "vxMapOrder"), ",") {
			if n != "" {
				m.mapOrderSym[n] = true
			}
		}
		return nil
	case "vxMapOrderOff":
		m.mapOrderSym = map[string]bool{}
		return nil
	case "vxMapOrderReverse":
		m.mapOrderRev = m.DecideV(a[0])
		return nil
	case "vxSetEnv":
		m.Env.EnvVars[m.mustStr(a[0], "vxSetEnv")] = m.mustStr(a[1], "vxSetEnv")
		return nil
	case "vxTraceMode":
		m.Env.Trace = m.DecideV(a[0])
		return nil
	case "vxTraceStatSeq":
		m.Env.TraceStatSeq = m.mustStr(a[0], "vxTraceStatSeq")
		return nil
	case "vxTraceStatRule":
		// rule-based os.Stat in trace mode; the argument is the task's (concrete) temp dir
		m.Env.TraceRuleTmp = m.mustStr(a[0], "vxTraceStatRule")
		m.Env.TraceStatSeq = ""
		m.Env.traceExecSeen = false
		return nil
	case "vxTraceStatFork":
		m.Env.TraceStatFork = m.DecideV(a[0])
		return nil
	case "vxWalkExtra":
		m.Env.WalkExtra = append(m.Env.WalkExtra, a[0])
		return nil
	case "vxWalkExtraKind":
		m.Env.WalkExtraKind = a[0]
		return nil
	case "vxClockSymbolic":
		m.Env.ClockSym = m.DecideV(a[0])
		return nil
	case "vxCmdFree":
		m.Env.CmdWriteFree = m.DecideV(a[0])
		m.Env.CmdExitFree = m.DecideV(a[1])
		return nil
	case "vxKillAt":
		// the process is killed immediately before crash point number k (counted from now)
		switch k := a[0].(type) {
		case int64:
			if k < 0 {
				m.Env.KillAt = nil
			} else {
				m.Env.KillAt = m.Env.Ops + k
			}
		case *sym.Term:
			m.Env.KillAt = c.Add(k, c.BV(k.Width, uint64(m.Env.Ops)))
		}
		return nil
	case "vxKillAtDesc":
		m.Env.KillAtDesc = m.mustStr(a[0], "vxKillAtDesc")
		return nil
	case "vxOps":
		return m.Env.Ops
	case "vxFSPut":
		// vxFSPut(path, kind, id): place a pre-existing node
		p := m.Env.abs(m.mustStr(a[0], "vxFSPut"))
		kind := int(m.toInt(a[1]))
		m.Env.nextIno++
		n := &Node{Kind: kind, Ino: m.Env.nextIno, Pre: true, MTime: int64(1)}
		if kind == KFile {
			n.C = &Content{Origin: "pre", Status: int64(2), ID: a[2]}
		}
		m.Env.Nodes[p] = n
		return nil
	case "vxReadAudit":
		n := m.Env.node(m.Env.abs(m.mustStr(a[0], "vxReadAudit") + ".audit.json"))
		if n == nil || n.C == nil {
			return (*Value)(nil)
		}
		blob, ok := n.C.Data.(*JSONBlob)
		if !ok {
			return (*Value)(nil)
		}
		return deepCopy(blob.Snap)
	case "vxFSDelete":
		delete(m.Env.Nodes, m.Env.abs(m.mustStr(a[0], "vxFSDelete")))
		return nil
	case "vxFSMkdirAll":
		ab := m.Env.abs(m.mustStr(a[0], "vxFSMkdirAll"))
		for x := ab; ; x = filepath.Dir(x) {
			if m.Env.node(x) == nil {
				m.Env.nextIno++
				m.Env.Nodes[x] = &Node{Kind: KDir, Ino: m.Env.nextIno, Pre: true}
			}
			if x == "/" {
				break
			}
		}
		return nil
	case "vxFSPutData":
		p := m.Env.abs(m.mustStr(a[0], "vxFSPutData"))
		m.Env.nextIno++
		n := &Node{Kind: KFile, Ino: m.Env.nextIno, Pre: true, MTime: int64(1)}
		n.C = &Content{Origin: "pre", Status: int64(2), Data: a[1]}
		m.Env.Nodes[p] = n
		return nil
	case "vxFSPutLines":
		p := m.Env.abs(m.mustStr(a[0], "vxFSPutLines"))
		m.Env.nextIno++
		n := &Node{Kind: KFile, Ino: m.Env.nextIno, Pre: true, MTime: int64(1)}
		ls := &Lines{}
		for _, l := range a[1].(Slice) {
			ls.L = append(ls.L, l)
		}
		n.C = &Content{Origin: "pre", Status: int64(2), Data: ls}
		m.Env.Nodes[p] = n
		return nil
	case "vxFSKind":
		n := m.Env.node(m.Env.abs(m.mustStr(a[0], "vxFSKind")))
		if n == nil {
			return int64(KAbsent)
		}
		return int64(n.Kind)
	case "vxFSIno":
		n := m.Env.node(m.Env.abs(m.mustStr(a[0], "vxFSIno")))
		if n == nil {
			return int64(0)
		}
		return int64(n.Ino)
	case "vxFSOrigin":
		n := m.Env.node(m.Env.abs(m.mustStr(a[0], "vxFSOrigin")))
		if n == nil || n.C == nil {
			return ""
		}
		return n.C.Origin
	case "vxFSInv":
		n := m.Env.node(m.Env.abs(m.mustStr(a[0], "vxFSInv")))
		if n == nil || n.C == nil || n.C.Origin != "cmd" {
			return int64(-1)
		}
		return int64(n.C.Inv)
	case "vxFSTarget":
		n := m.Env.node(m.Env.abs(m.mustStr(a[0], "vxFSTarget")))
		if n == nil || n.C == nil {
			return ""
		}
		return n.C.Target
	case "vxFSComplete":
		// file content is complete (status 2)
		n := m.Env.node(m.Env.abs(m.mustStr(a[0], "vxFSComplete")))
		if n == nil || n.C == nil {
			return false
		}
		return m.eqValue(n.C.Status, int64(2))
	case "vxFSPreID":
		n := m.Env.node(m.Env.abs(m.mustStr(a[0], "vxFSPreID")))
		if n == nil || n.C == nil || n.C.Origin != "pre" || n.C.ID == nil {
			return int64(-1)
		}
		return n.C.ID
	case "vxFSMTime":
		n := m.Env.node(m.Env.abs(m.mustStr(a[0], "vxFSMTime")))
		if n == nil || n.MTime == nil {
			return int64(0)
		}
		return n.MTime
	case "vxFSData":
		n := m.Env.node(m.Env.abs(m.mustStr(a[0], "vxFSData")))
		if n == nil || n.C == nil {
			return ""
		}
		switch d := n.C.Data.(type) {
		case string, *sym.Str:
			return d
		case nil:
			return ""
		}
		m.unsupported("vxFSData on %T", n.C.Data)
	case "vxFSLines":
		n := m.Env.node(m.Env.abs(m.mustStr(a[0], "vxFSLines")))
		if n == nil || n.C == nil {
			return Slice(nil)
		}
		return Slice(m.splitLines(n.C.Data))
	case "vxFSHasPartialLine":
		n := m.Env.node(m.Env.abs(m.mustStr(a[0], "vxFSHasPartialLine")))
		if n == nil || n.C == nil {
			return false
		}
		if ls, ok := n.C.Data.(*Lines); ok && len(ls.L) > 0 {
			_, p := ls.L[len(ls.L)-1].(Struct)
			return p
		}
		return false
	case "vxFSList":
		// all existing paths under a directory (relative to cwd), sorted
		root := m.Env.abs(m.mustStr(a[0], "vxFSList"))
		var out Slice
		for _, p := range m.Env.subtree(root) {
			if p == root {
				continue
			}
			out = append(out, strings.TrimPrefix(p, m.Env.Cwd+"/"))
		}
		return out
	case "vxFSRemoveTempDirsOnly":
		for p := range m.Env.Nodes {
			rel := strings.TrimPrefix(p, m.Env.Cwd+"/")
			if rel == p {
				continue
			}
			for _, seg := range strings.Split(rel, "/") {
				if strings.HasPrefix(seg, m.tempPrefix()) {
					delete(m.Env.Nodes, p)
					break
				}
			}
		}
		return nil
	case "vxTempPrefix":
		return m.tempPrefix()
	case "vxFSRemoveTemp":
		// clean-up step of C03: remove every _scipipe_tmp* subtree and *.fifo below cwd
		for p := range m.Env.Nodes {
			rel := strings.TrimPrefix(p, m.Env.Cwd+"/")
			if rel == p {
				continue
			}
			for _, seg := range strings.Split(rel, "/") {
				if strings.HasPrefix(seg, m.tempPrefix()) {
					delete(m.Env.Nodes, p)
					break
				}
			}
			if n := m.Env.Nodes[p]; n != nil && n.Kind == KFifo {
				delete(m.Env.Nodes, p)
			}
		}
		return nil
	case "vxEvCount":
		return int64(len(m.Env.Events))
	case "vxEvOp":
		return m.Env.Events[m.toInt(a[0])].Op
	case "vxEvArg":
		ev := m.Env.Events[m.toInt(a[0])]
		k := int(m.toInt(a[1]))
		if k >= len(ev.Args) {
			return ""
		}
		switch x := ev.Args[k].(type) {
		case string, *sym.Str:
			return x
		case int64:
			return fmt.Sprintf("%d", x)
		}
		return "?"
	case "vxEvArgInt":
		ev := m.Env.Events[m.toInt(a[0])]
		k := int(m.toInt(a[1]))
		if k >= len(ev.Args) {
			return int64(-1)
		}
		switch x := ev.Args[k].(type) {
		case int64:
			return x
		case *sym.Term:
			return m.C.Zext(x, 32)
		}
		return int64(-1)
	case "vxInvCount":
		return int64(len(m.Env.Invs))
	case "vxInvCmd":
		return m.Env.Invs[m.toInt(a[0])].Cmd
	case "vxInvOK":
		// the invocation ran to its end with exit status 0
		inv := m.Env.Invs[m.toInt(a[0])]
		if !inv.Ended || inv.Exit == nil || inv.MissedDeclared {
			return false
		}
		return m.eqValue(inv.Exit, int64(0))
	case "vxInvEnded":
		return m.Env.Invs[m.toInt(a[0])].Ended
	case "vxInvRun":
		return int64(m.Env.Invs[m.toInt(a[0])].RunID)
	case "vxInvReadCount":
		return int64(len(m.Env.Invs[m.toInt(a[0])].Reads))
	case "vxInvReadPath":
		return strings.TrimPrefix(m.Env.Invs[m.toInt(a[0])].Reads[m.toInt(a[1])], m.Env.Cwd+"/")
	case "vxInvReadPreID":
		c := m.Env.Invs[m.toInt(a[0])].ReadIDs[m.toInt(a[1])]
		if cc, ok := c.(*Content); ok && cc != nil && cc.Origin == "pre" && cc.ID != nil {
			return cc.ID
		}
		return int64(-1)
	case "vxInvReadInv":
		c := m.Env.Invs[m.toInt(a[0])].ReadIDs[m.toInt(a[1])]
		if cc, ok := c.(*Content); ok && cc != nil && cc.Origin == "cmd" {
			return int64(cc.Inv)
		}
		return int64(-1)
	case "vxRunID":
		if m.curRun != nil {
			return int64(m.curRun.id)
		}
		return int64(m.nrun)
	case "vxChanLen":
		if ch, ok := a[0].(Iface).V.(*Chan); ok && ch != nil {
			return int64(len(ch.buf))
		}
		return int64(0)
	case "vxBlockedCount":
		n := 0
		for _, g := range m.gs {
			if g.state == gBlocked {
				n++
			}
		}
		return int64(n)
	case "vxSet":
		m.userData[m.mustStr(a[0], "vxSet")] = a[1]
		return nil
	case "vxGet":
		v, ok := m.userData[m.mustStr(a[0], "vxGet")]
		if !ok {
			return int64(0)
		}
		return v
	}
	m.unsupported("unknown harness function %s", fn.Name())
	return nil
}

func (m *Machine) concretizeStr(v Value) Value {
	v = m.normScalar(v)
	if s, ok := v.(string); ok {
		return s
	}
	st := v.(*sym.Str)
	n := m.Concretize(m.C.Zext(st.Len, 32), false)
	b := make([]byte, n)
	for i := 0; i < int(n); i++ {
		b[i] = byte(m.Concretize(st.Ch[i], false))
	}
	return string(b)
}

// vxRun executes a closure as a "program run": os.Exit, panics, kills and deadlocks end
// the run and are reported as its kind.
func (m *Machine) vxRun(f Value) (kind Value) {
	m.nrun++
	run := &Run{id: m.nrun, owner: m.cur}
	prevRun := m.curRun
	prevGRun := m.cur.run
	m.curRun = run
	m.cur.run = run
	run.gs = append(run.gs, m.cur)
	owner := m.cur
	finish := func() {
		run.finished = true
		for _, g := range run.gs {
			if g != owner {
				m.kill(g)
			}
		}
		m.curRun = prevRun
		owner.run = prevGRun
		m.lastRun = run
		m.Env.event(m, "run-end", int64(run.id), run.kind)
	}
	defer func() {
		r := recover()
		switch x := r.(type) {
		case nil:
			if run.kind == "" {
				run.kind = "returned"
			}
			finish()
			kind = run.kind
		case runAbort:
			if x.run != run {
				finish()
				panic(r)
			}
			m.cur = owner
			owner.state = gRunning
			finish()
			kind = run.kind
		case goPanic:
			if run.kind == "" {
				run.kind, run.code, run.msg = "panic", 2, x.msg
			}
			m.cur = owner
			finish()
			kind = run.kind
		default:
			finish()
			panic(r)
		}
	}()
	m.Env.event(m, "run-start", int64(run.id))
	m.callValue(f, nil, nil)
	return
}

// tempPrefix: the prefix of the library's temp directories, read from the program itself
// (the package-level variable tempDirPrefix of the root package) so that renaming the
// scheme consistently does not confuse the clean-up step and the leftover checks.
func (m *Machine) tempPrefix() string {
	if v, ok := m.userData["__tempprefix"]; ok {
		return v.(string)
	}
	pre := "_scipipe_tmp"
	for _, pkg := range m.Prog.AllPackages() {
		if pkg.Pkg.Path() != modPrefix {
			continue
		}
		for name, mem := range pkg.Members {
			g, ok := mem.(*ssa.Global)
			if !ok || !strings.Contains(strings.ToLower(name), "tempdir") || !strings.Contains(strings.ToLower(name), "prefix") {
				continue
			}
			if p, ok := m.globals[g]; ok && p != nil {
				if sv, ok := (*p).(string); ok && sv != "" {
					pre = sv
				}
			}
		}
	}
	m.userData["__tempprefix"] = pre
	return pre
}
