package gose

import (
	"fmt"
	"path/filepath"
	"sort"
	"strconv"
	"strings"

	"verif/engine/sym"
)

// ---------------------------------------------------------------- world model

const (
	KAbsent = 0
	KFile   = 1
	KDir    = 2
	KFifo   = 3
)

// Content of a regular file in the model.
type Content struct {
	Origin string // "pre", "cmd", "go", "audit"
	Inv    int    // command invocation number (Origin == "cmd")
	Target string // path as written by the command
	Status Value  // int64 or term: 1 partial, 2 complete (cmd); 2 otherwise
	Data   Value  // string / *sym.Str / *JSONBlob / nil
	ID     Value  // identity tag of pre-existing content (int64 or term)
}

type Node struct {
	Kind    int
	C       *Content
	Ino     int
	MTime   Value
	Pre     bool // existed before the first run
}

type Event struct {
	Op   string
	Args []Value
	N    int64
	Run  int
}

type JSONBlob struct{ Snap Value }

type Invocation struct {
	N       int
	Cmd     string
	Dir     string
	Exit    Value // term or int64
	Started bool
	Ended   bool
	Proc    string
	Reads   []string
	ReadIDs []Value
	Writes  []string
	statuses []Value
	MissedDeclared bool // a declared (w:) output was not written at all
	RunID   int
}

// fifoMeet: rendezvous of one writer command and one reader command on a FIFO.
type fifoMeet struct {
	writer, reader *Invocation
	wg, rg         *G
	done           bool
}

type World struct {
	fifos map[string]*fifoMeet
	LastStdout Value // standard output of the last command (vcmd p:FILE prints FILE)
	// barrier commands (vcmd b:K)
	barrierN    int
	barrierWait []*G
	Cwd     string
	Nodes   map[string]*Node
	nextIno int
	Ops     int64 // number of crash points passed
	KillAt  Value // nil, int64 or term: kill immediately before crash point number KillAt
	Events  []Event
	Invs    []*Invocation
	EnvVars map[string]string
	ClockSym bool
	clockN  int
	lastT   Value
	Trace   bool // allow symbolic paths (events only)
	TraceStatSeq string // trace mode: scripted os.Stat outcomes ("0"/"1" per call)
	// trace mode, rule-based os.Stat: a symbolic path exists iff something created it in
	// this trace, or it lies in the task's temp dir and the command has run
	TraceRuleTmp  string
	traceMade     map[string]bool
	traceExecSeen bool
	TraceStatFork bool // trace mode: os.Stat outcome is a symbolic boolean
	WalkExtra []Value // trace mode: files visited by filepath.Walk
	WalkExtraKind Value // kind of those files as Lstat sees it (nil/0 regular, 1 symlink, 2 named pipe, 3 socket); int64 or term
	CmdExitFree bool  // vcmd exit status symbolic (default true)
	CmdWriteFree bool // vcmd write outcomes symbolic (default true)
	Tmpfiles int
	KillAtDesc string // kill before the first crash point whose description ends with this (or contains it followed by a blank)
	PreemptAtFS bool // every crash point is also a scheduling point
	CmdHook func(m *Machine, inv *Invocation) // optional
}

func NewWorld() *World {
	w := &World{Cwd: "/w", Nodes: map[string]*Node{}, EnvVars: map[string]string{}, CmdExitFree: true, CmdWriteFree: true}
	w.Nodes["/"] = &Node{Kind: KDir, Pre: true}
	w.Nodes["/w"] = &Node{Kind: KDir, Pre: true}
	w.Nodes["/tmp"] = &Node{Kind: KDir, Pre: true}
	return w
}

func (w *World) abs(p string) string {
	if !filepath.IsAbs(p) {
		p = filepath.Join(w.Cwd, p)
	}
	return filepath.Clean(p)
}

// dotDotOK: the kernel resolves a path component by component, so every ".." must follow
// a prefix that exists as a directory ("stage/../x" needs "stage"); the lexical abs()
// alone would accept it.
func (w *World) dotDotOK(base, p string) bool {
	if !strings.Contains(p, "..") {
		return true
	}
	cur := base
	if filepath.IsAbs(p) {
		cur = "/"
	}
	for _, comp := range strings.Split(p, "/") {
		switch comp {
		case "", ".":
		case "..":
			if n := w.node(cur); n == nil || n.Kind != KDir {
				return false
			}
			cur = filepath.Dir(cur)
		default:
			cur = filepath.Join(cur, comp)
		}
	}
	return true
}

func (w *World) absFrom(dir, p string) string {
	if !filepath.IsAbs(p) {
		p = filepath.Join(dir, p)
	}
	return filepath.Clean(p)
}

func (w *World) node(abs string) *Node {
	n := w.Nodes[abs]
	if n == nil || n.Kind == KAbsent {
		return nil
	}
	return n
}

func (w *World) event(m *Machine, op string, args ...Value) {
	rid := 0
	if m.curRun != nil {
		rid = m.curRun.id
	}
	w.Events = append(w.Events, Event{Op: op, Args: args, N: w.Ops, Run: rid})
	if m.Cfg.TraceCalls {
		parts := []string{}
		for _, a := range args {
			parts = append(parts, m.describe(a))
		}
		m.tracef("env %s(%s)", op, strings.Join(parts, ", "))
	}
}

// crashPoint: the process may be killed immediately before the next effect.
func (m *Machine) crashPoint(what string) {
	w := m.Env
	if w.PreemptAtFS {
		m.maybePreempt() // file-system effects of concurrently running tasks may interleave
	}
	n := w.Ops
	w.Ops++
	if w.KillAtDesc != "" && (strings.HasSuffix(what, w.KillAtDesc) || strings.Contains(what, w.KillAtDesc+" ")) {
		w.KillAtDesc = ""
		w.event(m, "KILL", what)
		g := m.cur
		m.endRun(g, "killed", 137, fmt.Sprintf("killed before op %d (%s)", n, what))
		panic(gDie{})
	}
	if w.KillAt == nil {
		return
	}
	var hit bool
	switch k := w.KillAt.(type) {
	case int64:
		hit = k == n
	case *sym.Term:
		hit = m.Decide(m.C.Eq(k, m.C.BV(k.Width, uint64(n))))
	}
	if hit {
		w.event(m, "KILL", what)
		w.KillAt = nil
		g := m.cur
		m.endRun(g, "killed", 137, fmt.Sprintf("killed before op %d (%s)", n, what))
		panic(gDie{})
	}
}

func (w *World) parentExists(abs string) bool {
	d := filepath.Dir(abs)
	n := w.node(d)
	return n != nil && n.Kind == KDir
}

func (w *World) newFile(abs string, c *Content, mtime Value) *Node {
	w.nextIno++
	n := &Node{Kind: KFile, C: c, Ino: w.nextIno, MTime: mtime}
	w.Nodes[abs] = n
	return n
}

// children lists direct children paths of a directory, sorted.
func (w *World) children(abs string) []string {
	var out []string
	prefix := abs
	if prefix != "/" {
		prefix += "/"
	}
	for p, n := range w.Nodes {
		if n.Kind == KAbsent || p == abs {
			continue
		}
		if strings.HasPrefix(p, prefix) && !strings.Contains(p[len(prefix):], "/") {
			out = append(out, p)
		}
	}
	sort.Strings(out)
	return out
}

func (w *World) subtree(abs string) []string {
	var out []string
	prefix := abs
	if prefix != "/" {
		prefix += "/"
	}
	for p, n := range w.Nodes {
		if n.Kind == KAbsent {
			continue
		}
		if p == abs || strings.HasPrefix(p, prefix) {
			out = append(out, p)
		}
	}
	sort.Strings(out)
	return out
}

// ---------------------------------------------------------------- errors

func (m *Machine) errVal(kind, msg string) Iface {
	return Iface{T: m.extType("error:" + kind), V: &Ext{Kind: "error:" + kind, F: map[string]Value{"msg": msg}}}
}

func errKind(v Value) string {
	if i, ok := v.(Iface); ok && i.T != nil {
		if _, ok := i.V.(*Value); ok {
			return "exit"
		}
		if e, ok := i.V.(*Ext); ok && e != nil {
			return strings.TrimPrefix(e.Kind, "error:")
		}
		return "other"
	}
	return ""
}

// ---------------------------------------------------------------- FS operations (state mode: concrete paths)

func (m *Machine) pathArg(v Value) (string, bool) {
	v = m.normScalar(v)
	s, ok := v.(string)
	return s, ok
}

func (m *Machine) fsStat(pv Value) (Value, Value) {
	w := m.Env
	p, ok := m.pathArg(pv)
	if !ok {
		if !w.Trace {
			m.unsupported("os.Stat on symbolic path outside trace mode")
		}
		w.event(m, "stat", pv)
		// trace mode, rule-based (independent of how many stat calls the code makes)
		if w.TraceRuleTmp != "" {
			exists := false
			var kb strings.Builder
			if m.valueKey(pv, &kb, 0) && w.traceMade[kb.String()] {
				exists = true
			} else if st, isS := pv.(*sym.Str); isS && w.traceExecSeen {
				pre := w.TraceRuleTmp + "/"
				if len(st.Ch) >= len(pre) {
					exists = true
					for i := 0; i < len(pre); i++ {
						if !st.Ch[i].IsConst() || byte(st.Ch[i].Val) != pre[i] {
							exists = false
							break
						}
					}
				}
			}
			if exists {
				return Iface{T: m.extType("fileinfo"), V: &Ext{Kind: "fileinfo", F: map[string]Value{"isdir": false, "name": pv}}}, Iface{}
			}
			return Iface{}, m.errVal("ENOENT", "stat: no such file or directory")
		}
		// trace mode: scripted outcome, else absent unless the harness asks for a symbolic outcome
		if len(w.TraceStatSeq) > 0 {
			ex := w.TraceStatSeq[0] == '1'
			w.TraceStatSeq = w.TraceStatSeq[1:]
			if ex {
				return Iface{T: m.extType("fileinfo"), V: &Ext{Kind: "fileinfo", F: map[string]Value{"isdir": false, "name": pv}}}, Iface{}
			}
			return Iface{}, m.errVal("ENOENT", "stat: no such file or directory")
		}
		if !w.TraceStatFork {
			return Iface{}, m.errVal("ENOENT", "stat: no such file or directory")
		}
		m.fresh++
		b := m.C.Var(fmt.Sprintf("stat.exists#%d", m.fresh), 0)
		m.declInput(&InputDecl{Name: b.Name, Kind: "bool", Term: b})
		if m.Decide(b) {
			return Iface{T: m.extType("fileinfo"), V: &Ext{Kind: "fileinfo", F: map[string]Value{"isdir": false, "name": pv}}}, Iface{}
		}
		return Iface{}, m.errVal("ENOENT", "stat: no such file or directory")
	}
	w.event(m, "stat", p)
	if p == "" {
		return Iface{}, m.errVal("ENOENT", "stat : no such file or directory")
	}
	n := w.node(w.abs(p))
	if n == nil || !w.dotDotOK(w.Cwd, p) {
		return Iface{}, m.errVal("ENOENT", "stat "+p+": no such file or directory")
	}
	return Iface{T: m.extType("fileinfo"), V: &Ext{Kind: "fileinfo", F: map[string]Value{"isdir": n.Kind == KDir, "name": filepath.Base(p), "node": n}}}, Iface{}
}

func (m *Machine) fsMkdirAll(pv Value) Value {
	w := m.Env
	p, ok := m.pathArg(pv)
	if !ok {
		if !w.Trace {
			m.unsupported("os.MkdirAll on symbolic path outside trace mode")
		}
		m.crashPoint("mkdirall")
		w.event(m, "mkdirall", pv)
		w.traceMake(m, pv, true)
		return Iface{}
	}
	m.crashPoint("mkdirall " + p)
	w.event(m, "mkdirall", p)
	if p == "" {
		return m.errVal("ENOENT", "mkdir : no such file or directory")
	}
	if strings.Contains(p, "..") {
		// os.MkdirAll works on the path as written: "stage/../x" creates stage and x
		cur := w.Cwd
		if filepath.IsAbs(p) {
			cur = "/"
		}
		for _, comp := range strings.Split(p, "/") {
			switch comp {
			case "", ".":
			case "..":
				cur = filepath.Dir(cur)
			default:
				cur = filepath.Join(cur, comp)
				if n := w.node(cur); n == nil {
					if !w.parentExists(cur) {
						return m.errVal("ENOENT", "mkdir "+p+": no such file or directory")
					}
					w.nextIno++
					w.Nodes[cur] = &Node{Kind: KDir, Ino: w.nextIno}
				} else if n.Kind != KDir {
					return m.errVal("ENOTDIR", "mkdir "+p+": not a directory")
				}
			}
		}
		return Iface{}
	}
	a := w.abs(p)
	// create all missing ancestors
	var chain []string
	for x := a; ; x = filepath.Dir(x) {
		chain = append([]string{x}, chain...)
		if x == "/" {
			break
		}
	}
	for _, x := range chain {
		n := w.node(x)
		if n == nil {
			w.nextIno++
			w.Nodes[x] = &Node{Kind: KDir, Ino: w.nextIno}
		} else if n.Kind != KDir {
			return m.errVal("ENOTDIR", "mkdir "+p+": not a directory")
		}
	}
	return Iface{}
}

func (m *Machine) fsRename(fv, tv Value) Value {
	w := m.Env
	from, ok1 := m.pathArg(fv)
	to, ok2 := m.pathArg(tv)
	if !ok1 || !ok2 {
		if !w.Trace {
			m.unsupported("os.Rename on symbolic path outside trace mode")
		}
		m.crashPoint("rename")
		w.event(m, "rename", fv, tv)
		w.traceMake(m, fv, false)
		w.traceMake(m, tv, true)
		return Iface{}
	}
	m.crashPoint("rename " + from + " -> " + to)
	w.event(m, "rename", from, to)
	af, at := w.abs(from), w.abs(to)
	n := w.node(af)
	if n == nil || !w.dotDotOK(w.Cwd, from) || !w.dotDotOK(w.Cwd, to) {
		return m.errVal("ENOENT", "rename "+from+" "+to+": no such file or directory")
	}
	if !w.parentExists(at) {
		return m.errVal("ENOENT", "rename "+from+" "+to+": no such file or directory")
	}
	if dst := w.node(at); dst != nil {
		if dst.Kind == KDir && n.Kind != KDir {
			return m.errVal("EISDIR", "rename: file exists (directory)")
		}
		if dst.Kind == KDir && len(w.children(at)) > 0 {
			return m.errVal("ENOTEMPTY", "rename: directory not empty")
		}
	}
	if af == at {
		return Iface{}
	}
	if n.Kind == KDir {
		for _, p := range w.subtree(af) {
			np := at + p[len(af):]
			w.Nodes[np] = w.Nodes[p]
			delete(w.Nodes, p)
		}
	} else {
		w.Nodes[at] = n
		delete(w.Nodes, af)
	}
	return Iface{}
}

func (m *Machine) fsRemove(pv Value, all bool) Value {
	w := m.Env
	p, ok := m.pathArg(pv)
	if !ok {
		if !w.Trace {
			m.unsupported("os.Remove on symbolic path outside trace mode")
		}
		m.crashPoint("remove")
		w.event(m, "remove", pv)
		w.traceMake(m, pv, false)
		return Iface{}
	}
	op := "remove"
	if all {
		op = "removeall"
	}
	m.crashPoint(op + " " + p)
	w.event(m, op, p)
	a := w.abs(p)
	n := w.node(a)
	if n == nil {
		if all {
			return Iface{}
		}
		return m.errVal("ENOENT", "remove "+p+": no such file or directory")
	}
	if n.Kind == KDir && !all && len(w.children(a)) > 0 {
		return m.errVal("ENOTEMPTY", "remove "+p+": directory not empty")
	}
	for _, x := range w.subtree(a) {
		delete(w.Nodes, x)
	}
	return Iface{}
}

func (m *Machine) now() Value {
	w := m.Env
	w.clockN++
	if !w.ClockSym {
		return int64(1000 * w.clockN)
	}
	c := m.C
	t := c.Var(fmt.Sprintf("clock#%d", w.clockN), 64)
	m.declInput(&InputDecl{Name: t.Name, Kind: "int", Bits: 64, Term: t})
	lo := c.BV(64, 1)
	if w.lastT != nil {
		lo = m.intTerm64(w.lastT)
	}
	m.assertPC(c.And(c.Sle(lo, t), c.Slt(t, c.BV(64, 1<<62))))
	w.lastT = t
	return t
}

func (m *Machine) intTerm64(v Value) *sym.Term {
	switch x := v.(type) {
	case int64:
		return m.C.BV(64, uint64(x))
	case *sym.Term:
		return x
	}
	panic("intTerm64")
}

// writeFile creates or replaces a regular file (Go-side writes: complete contents).
func (m *Machine) fsWriteFile(pv Value, data Value, origin string) Value {
	w := m.Env
	p, ok := m.pathArg(pv)
	if !ok {
		if !w.Trace {
			m.unsupported("write on symbolic path outside trace mode")
		}
		m.crashPoint("write")
		w.event(m, "write", pv)
		w.traceMake(m, pv, true)
		return Iface{}
	}
	m.crashPoint("write " + p)
	w.event(m, "write", p)
	a := w.abs(p)
	if !w.parentExists(a) || !w.dotDotOK(w.Cwd, p) {
		return m.errVal("ENOENT", "open "+p+": no such file or directory")
	}
	if n := w.node(a); n != nil && n.Kind == KDir {
		return m.errVal("EISDIR", "open "+p+": is a directory")
	}
	// A write is not atomic: the file is first created / truncated (empty), then filled. A
	// kill between the two leaves an empty file behind.
	nonEmpty := true
	if sd, ok := data.(string); ok && sd == "" {
		nonEmpty = false
	}
	empty := &Content{Origin: origin, Status: int64(1), Data: ""}
	n := w.node(a)
	if n != nil && n.Kind == KFile {
		n.C = empty
		n.MTime = m.now()
	} else {
		n = w.newFile(a, empty, m.now())
	}
	if nonEmpty {
		m.crashPoint("write-data " + p)
	}
	n.C = &Content{Origin: origin, Status: int64(2), Data: data}
	return Iface{}
}

func (m *Machine) fsReadFile(pv Value) (Value, Value) {
	w := m.Env
	p, ok := m.pathArg(pv)
	if !ok {
		if !w.Trace {
			m.unsupported("read on symbolic path outside trace mode")
		}
		w.event(m, "read", pv)
		return Slice(nil), m.errVal("ENOENT", "open: no such file or directory")
	}
	w.event(m, "read", p)
	n := w.node(w.abs(p))
	if n == nil || !w.dotDotOK(w.Cwd, p) {
		return Slice(nil), m.errVal("ENOENT", "open "+p+": no such file or directory")
	}
	if n.Kind != KFile {
		return Slice(nil), m.errVal("EISDIR", "read "+p+": is a directory")
	}
	return m.dataToBytes(n.C.Data), Iface{}
}

func (m *Machine) dataToBytes(d Value) Value {
	switch x := d.(type) {
	case nil:
		return Slice{}
	case *JSONBlob:
		return x
	case string:
		r := make(Slice, len(x))
		for i := 0; i < len(x); i++ {
			r[i] = int64(x[i])
		}
		return r
	case *sym.Str:
		return &SymBytes{S: x}
	case Slice, *SymBytes:
		return x
	case *Lines:
		if s, ok := m.linesToData(x); ok {
			return m.dataToBytes(s)
		}
	}
	return &Ext{Kind: "bytes", F: map[string]Value{"data": d}}
}

func (m *Machine) bytesToData(b Value) Value {
	switch x := b.(type) {
	case *JSONBlob:
		return x
	case *SymBytes:
		return x.S
	case Slice:
		allc := true
		for _, e := range x {
			if _, ok := e.(int64); !ok {
				allc = false
			}
		}
		if allc {
			bs := make([]byte, len(x))
			for i, e := range x {
				bs[i] = byte(e.(int64))
			}
			return string(bs)
		}
		return m.convertBytesToStr(x)
	case *Ext:
		return x.F["data"]
	}
	return b
}

func (m *Machine) convertBytesToStr(x Slice) Value {
	c := m.C
	s := &sym.Str{Len: c.L(len(x)), Ch: make([]*sym.Term, len(x))}
	for i, e := range x {
		switch ev := e.(type) {
		case int64:
			s.Ch[i] = c.BV(8, uint64(ev))
		case *sym.Term:
			s.Ch[i] = c.Resize(ev, 8, false)
		}
	}
	return s
}

// ---------------------------------------------------------------- command model

// runShell interprets the tiny shell language the harness commands are written in:
//   simple commands joined by "&&"; words separated by spaces;
//   cd DIR | vcmd ARG... | mkfifo P | rm P | true | false
// vcmd arguments:  w:PATH declared write   x:PATH extra write   r:PATH read
//                  (anything else is ignored as an opaque argument)
// Returns the error value of CombinedOutput.
func (m *Machine) runShell(script Value) Value {
	w := m.Env
	s, ok := m.pathArg(script)
	if !ok {
		if !w.Trace {
			m.unsupported("exec of symbolic command outside trace mode")
		}
		m.crashPoint("exec")
		w.event(m, "exec", script)
		w.traceExecSeen = true
		return Iface{}
	}
	m.crashPoint("exec " + s)
	w.event(m, "exec", s)
	dir := w.Cwd
	for _, part := range strings.Split(s, "&&") {
		words := strings.Fields(part)
		if len(words) == 0 {
			continue
		}
		switch words[0] {
		case "cd":
			if len(words) != 2 {
				m.unsupported("shell: cd with %d args", len(words)-1)
			}
			nd := w.absFrom(dir, words[1])
			if n := w.node(nd); n == nil || n.Kind != KDir {
				return m.errVal("exit", "exit status 1 (cd: no such directory "+words[1]+")")
			}
			dir = nd
		case "true":
		case "false":
			return m.errVal("exit", "exit status 1")
		case "mkfifo":
			for _, p := range words[1:] {
				a := w.absFrom(dir, p)
				m.crashPoint("mkfifo " + p)
				w.event(m, "mkfifo", p)
				if w.node(a) != nil || !w.parentExists(a) {
					return m.errVal("exit", "exit status 1 (mkfifo)")
				}
				w.nextIno++
				w.Nodes[a] = &Node{Kind: KFifo, Ino: w.nextIno}
			}
		case "rm":
			for _, p := range words[1:] {
				a := w.absFrom(dir, p)
				m.crashPoint("rm " + p)
				w.event(m, "rm", p)
				n := w.node(a)
				if n == nil || n.Kind == KDir {
					return m.errVal("exit", "exit status 1 (rm)")
				}
				delete(w.Nodes, a)
			}
		case "vcmd":
			if e := m.runVcmd(dir, part, words[1:]); e != nil {
				return e
			}
		default:
			m.unsupported("shell: unknown command %q in %q", words[0], s)
		}
	}
	return Iface{}
}

func (m *Machine) runVcmd(dir, text string, args []string) Value {
	w := m.Env
	inv := &Invocation{N: len(w.Invs), Cmd: strings.TrimSpace(text), Dir: dir, Started: true}
	if m.curRun != nil {
		inv.RunID = m.curRun.id
	}
	w.Invs = append(w.Invs, inv)
	w.event(m, "cmd-start", int64(inv.N), inv.Cmd)
	if len(m.traceChans) > 0 {
		m.SyncTrace = append(m.SyncTrace, "B")
		defer func() { m.SyncTrace = append(m.SyncTrace, "E") }()
	}
	c := m.C
	fail := func(why string) Value {
		inv.Ended = true
		inv.Exit = int64(1)
		w.event(m, "cmd-end", int64(inv.N), int64(1), why)
		return m.exitError(int64(1))
	}
	// the hook can make commands block / rendezvous etc.
	if w.CmdHook != nil {
		w.CmdHook(m, inv)
	}
	for _, a := range args {
		switch {
		case strings.HasPrefix(a, "b:"):
			// barrier: the command waits until K barrier commands have started (the
			// "rendezvous command" of the work-conservation property)
			k, _ := strconv.Atoi(a[2:])
			w.barrierN++
			w.barrierWait = append(w.barrierWait, m.cur)
			w.event(m, "cmd-barrier", int64(inv.N), int64(w.barrierN))
			for w.barrierN < k {
				m.park("barrier")
			}
			for _, g := range w.barrierWait {
				if g != m.cur {
					m.makeRunnable(g)
				}
			}
			w.barrierWait = nil
		case strings.HasPrefix(a, "p:"):
			// print the content of a file to the standard output (like cat)
			p := a[2:]
			ab := w.absFrom(dir, p)
			n := w.node(ab)
			if n == nil || n.Kind != KFile || !w.dotDotOK(dir, p) {
				return fail("read of missing file " + p)
			}
			var d Value = ""
			if n.C != nil && n.C.Data != nil {
				d = n.C.Data
			}
			if ls, isL := d.(*Lines); isL {
				if sd, ok := m.linesToData(ls); ok {
					d = sd
				}
			}
			if w.LastStdout == nil {
				w.LastStdout = d
			} else {
				w.LastStdout = m.concatV(w.LastStdout, d)
			}
		case strings.HasPrefix(a, "e:"):
			// concrete fault (model validation): the command stops here with this exit status;
			// 255 = its shell is killed by a signal
			code, _ := strconv.Atoi(a[2:])
			inv.Ended = true
			inv.Exit = int64(code)
			w.event(m, "cmd-end", int64(inv.N), int64(code), "injected")
			return m.exitError(int64(code))
		case strings.HasPrefix(a, "h:"):
			// concrete fault: a partial write of the target
			p := a[2:]
			ab := w.absFrom(dir, p)
			m.crashPoint("cmd-write " + p)
			if !w.parentExists(ab) {
				return fail("cannot create " + p + ": no such directory")
			}
			inv.Writes = append(inv.Writes, ab)
			inv.statuses = append(inv.statuses, int64(1))
			cont := &Content{Origin: "cmd", Inv: inv.N, Target: p, Status: int64(1)}
			if n := w.node(ab); n != nil && n.Kind == KFile {
				n.C = cont
				n.MTime = m.now()
			} else {
				w.newFile(ab, cont, m.now())
			}
			w.event(m, "cmd-write", int64(inv.N), ab)
		case strings.HasPrefix(a, "r:"):
			p := a[2:]
			ab := w.absFrom(dir, p)
			n := w.node(ab)
			if n == nil || n.Kind == KDir || !w.dotDotOK(dir, p) {
				return fail("read of missing file " + p)
			}
			inv.Reads = append(inv.Reads, ab)
			var id Value
			if n.C != nil {
				id = n.C
			}
			if n.Kind == KFifo {
				// opening a FIFO for reading blocks until a writer opens it; the reader
				// receives the writer's bytes
				meet := m.fifoRendezvous(ab, inv, false)
				id = &Content{Origin: "cmd", Inv: meet.writer.N, Target: p, Status: int64(2)}
			}
			inv.ReadIDs = append(inv.ReadIDs, id)
			w.event(m, "cmd-read", int64(inv.N), ab)
		case strings.HasPrefix(a, "w:"), strings.HasPrefix(a, "x:"):
			p := a[2:]
			ab := w.absFrom(dir, p)
			// outcome: 0 nothing written, 1 partial, 2 complete
			var st Value = int64(2)
			if w.CmdWriteFree {
				v := c.Var(fmt.Sprintf("cmd%d.write%d", inv.N, len(inv.Writes)), 8)
				m.declInput(&InputDecl{Name: v.Name, Kind: "int", Bits: 8, Term: v})
				m.assertPC(c.Ult(v, c.BV(8, 3)))
				if m.Decide(c.Eq(v, c.BV(8, 0))) {
					st = int64(0)
				} else {
					st = v
				}
			}
			inv.Writes = append(inv.Writes, ab)
			inv.statuses = append(inv.statuses, st)
			if a[0] == 'w' && st == int64(0) {
				inv.MissedDeclared = true
			}
			if st == int64(0) {
				continue
			}
			m.crashPoint("cmd-write " + p)
			if !w.parentExists(ab) || !w.dotDotOK(dir, p) {
				return fail("cannot create " + p + ": no such directory")
			}
			if n := w.node(ab); n != nil && n.Kind == KDir {
				return fail("cannot create " + p + ": is a directory")
			}
			if n := w.node(ab); n != nil && n.Kind == KFifo {
				// opening a FIFO for writing blocks until a reader opens it
				w.event(m, "cmd-write-fifo", int64(inv.N), ab)
				m.fifoRendezvous(ab, inv, true)
				continue
			}
			cont := &Content{Origin: "cmd", Inv: inv.N, Target: p, Status: st}
			if n := w.node(ab); n != nil && n.Kind == KFile {
				n.C = cont
				n.MTime = m.now()
			} else {
				w.newFile(ab, cont, m.now())
			}
			w.event(m, "cmd-write", int64(inv.N), ab)
		}
	}
	// exit status. A command that exits 0 has written what it wrote completely: a partial
	// file only goes with a failure (non-zero exit, or a kill).
	inv.Ended = true
	m.crashPoint("cmd-exit")
	if !w.CmdExitFree {
		inv.Exit = int64(0)
		w.event(m, "cmd-end", int64(inv.N), int64(0))
		return nil
	}
	v := c.Var(fmt.Sprintf("cmd%d.exit", inv.N), 8)
	m.declInput(&InputDecl{Name: v.Name, Kind: "int", Bits: 8, Term: v})
	success := c.Eq(v, c.BV(8, 0))
	for _, st := range inv.statuses {
		if t, ok := st.(*sym.Term); ok {
			success = c.And(success, c.Eq(t, c.BV(8, 2)))
		}
	}
	if m.Decide(success) {
		inv.Exit = int64(0)
		w.event(m, "cmd-end", int64(inv.N), int64(0))
		return nil
	}
	m.assertPC(c.Not(c.Eq(v, c.BV(8, 0))))
	inv.Exit = v
	w.event(m, "cmd-end", int64(inv.N), v)
	return m.exitError(v)
}

// exitError builds an *exec.ExitError value: a real struct {*os.ProcessState; Stderr}
// whose process state is a modelled object carrying the (possibly symbolic) status;
// status 255 stands for "killed by a signal" (ExitCode() == -1).
func (m *Machine) exitError(code Value) Iface {
	ps := &Ext{Kind: "processstate", F: map[string]Value{"code": code}}
	p := new(Value)
	*p = Struct{ps, Slice(nil)}
	return Iface{T: m.extType("exiterror"), V: p}
}

func (m *Machine) fifoRendezvous(path string, inv *Invocation, isWriter bool) *fifoMeet {
	w := m.Env
	if w.fifos == nil {
		w.fifos = map[string]*fifoMeet{}
	}
	meet := w.fifos[path]
	if meet == nil || meet.done {
		meet = &fifoMeet{}
		w.fifos[path] = meet
	}
	if isWriter {
		if meet.writer != nil {
			m.unsupported("two writers on FIFO %s", path)
		}
		meet.writer, meet.wg = inv, m.cur
	} else {
		if meet.reader != nil {
			m.unsupported("two readers on FIFO %s", path)
		}
		meet.reader, meet.rg = inv, m.cur
	}
	for meet.writer == nil || meet.reader == nil {
		m.park("fifo " + path)
	}
	if !meet.done {
		meet.done = true
		// wake the partner
		if isWriter {
			m.makeRunnable(meet.rg)
		} else {
			m.makeRunnable(meet.wg)
		}
	}
	return meet
}

// deepCopy copies a value graph (used for JSON snapshots).
func deepCopy(v Value) Value {
	switch x := v.(type) {
	case Struct:
		n := make(Struct, len(x))
		for i, f := range x {
			n[i] = deepCopy(f)
		}
		return n
	case Array:
		n := make(Array, len(x))
		for i, f := range x {
			n[i] = deepCopy(f)
		}
		return n
	case Slice:
		if x == nil {
			return x
		}
		n := make(Slice, len(x))
		for i, f := range x {
			n[i] = deepCopy(f)
		}
		return n
	case *Value:
		if x == nil {
			return x
		}
		p := new(Value)
		*p = deepCopy(*x)
		return p
	case *Map:
		if x == nil {
			return x
		}
		n := NewMap()
		for i, k := range x.keys {
			n.keys = append(n.keys, k)
			n.vals = append(n.vals, deepCopy(x.vals[i]))
			if hk, ok := hashable(k); ok {
				n.index[hk] = i
			} else {
				n.nsym++
			}
		}
		return n
	case Iface:
		return Iface{T: x.T, V: deepCopy(x.V)}
	}
	return v
}

// traceMake records that a symbolic path was created / removed in trace mode.
func (w *World) traceMake(m *Machine, pv Value, made bool) {
	if w.traceMade == nil {
		w.traceMade = map[string]bool{}
	}
	var kb strings.Builder
	if m.valueKey(pv, &kb, 0) {
		if made {
			w.traceMade[kb.String()] = true
		} else {
			delete(w.traceMade, kb.String())
		}
	}
}
