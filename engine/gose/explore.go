package gose

import (
	"path/filepath"
	"crypto/sha256"
	"encoding/hex"
	"fmt"
	"go/token"
	"go/types"
	"os"
	"sort"
	"strings"
	"sync"
	"time"

	"golang.org/x/tools/go/packages"
	"golang.org/x/tools/go/ssa"
	"golang.org/x/tools/go/ssa/ssautil"

	"verif/engine/smt"
	"verif/engine/sym"
)

// Program is the loaded SSA of /repo plus injected harness files.
type Program struct {
	Prog  *ssa.Program
	Pkgs  map[string]*ssa.Package // by import path
	Fset  *token.FileSet
	Files map[string][]byte // source cache for hashing
	LoadS float64
	Dropped []string // harness files left out because they do not compile against this tree
}

// Load builds SSA for the scipipe packages with overlay harness files.
// overlay maps virtual file path (under repoDir) -> contents.
// Load loads the packages with the harness overlay. A harness file that does not compile
// against the current tree (it names an unexported identifier that a change removed or
// renamed) is dropped from the overlay and the load is repeated, so that one such file
// takes down only the checks that need its harnesses, not every check of the package.
// The dropped files are listed in Program.Dropped.
func Load(repoDir string, overlay map[string][]byte, patterns ...string) (*Program, error) {
	var dropped []string
	for attempt := 0; ; attempt++ {
		p, err := loadOnce(repoDir, overlay, patterns...)
		if err == nil {
			p.Dropped = dropped
			return p, nil
		}
		if attempt >= 4 {
			return nil, err
		}
		// which harness files do the errors point at?
		bad := map[string]bool{}
		for _, line := range strings.Split(err.Error(), "\n") {
			i := strings.Index(line, "zz_verif_")
			if i < 0 {
				continue
			}
			j := strings.Index(line[i:], ".go")
			if j < 0 {
				continue
			}
			base := line[i : i+j+3]
			for k := range overlay {
				if filepath.Base(k) == base && strings.HasPrefix(line, k) {
					bad[k] = true
				}
			}
		}
		// the vocabulary file cannot be dropped
		n := 0
		no := map[string][]byte{}
		for k, v := range overlay {
			if bad[k] && !strings.HasSuffix(k, "zz_verif_vx.go") {
				dropped = append(dropped, k)
				n++
				continue
			}
			no[k] = v
		}
		if n == 0 {
			return nil, err
		}
		overlay = no
	}
}

func loadOnce(repoDir string, overlay map[string][]byte, patterns ...string) (*Program, error) {
	t0 := time.Now()
	if len(patterns) == 0 {
		patterns = []string{".", "./components", "./cmd/scipipe"}
	}
	cfg := &packages.Config{
		Mode:    packages.LoadAllSyntax,
		Dir:     repoDir,
		Overlay: overlay,
		Env:     append(os.Environ(), "GOFLAGS=-mod=mod", "GOPROXY=off", "GOSUMDB=off", "GOTOOLCHAIN=local"),
	}
	pkgs, err := packages.Load(cfg, patterns...)
	if err != nil {
		return nil, err
	}
	var errs []string
	packages.Visit(pkgs, nil, func(p *packages.Package) {
		for _, e := range p.Errors {
			errs = append(errs, e.Error())
		}
	})
	if len(errs) > 0 {
		return nil, fmt.Errorf("package errors:\n%s", strings.Join(errs, "\n"))
	}
	prog, spkgs := ssautil.AllPackages(pkgs, ssa.InstantiateGenerics)
	prog.Build()
	p := &Program{Prog: prog, Pkgs: map[string]*ssa.Package{}, Fset: prog.Fset, Files: map[string][]byte{}}
	for i, sp := range spkgs {
		if sp != nil {
			p.Pkgs[pkgs[i].PkgPath] = sp
		}
	}
	p.LoadS = time.Since(t0).Seconds()
	return p, nil
}

// FuncHash returns the SHA-256 of the source span of fn (from the working tree / overlay).
func (p *Program) FuncHash(fn *ssa.Function, overlay map[string][]byte) string {
	if fn.Syntax() == nil {
		return ""
	}
	pos, end := p.Fset.Position(fn.Syntax().Pos()), p.Fset.Position(fn.Syntax().End())
	src, ok := p.Files[pos.Filename]
	if !ok {
		if o, ok2 := overlay[pos.Filename]; ok2 {
			src = o
		} else {
			b, err := os.ReadFile(pos.Filename)
			if err != nil {
				return ""
			}
			src = b
		}
		p.Files[pos.Filename] = src
	}
	if pos.Offset < 0 || end.Offset > len(src) || pos.Offset > end.Offset {
		return ""
	}
	h := sha256.Sum256(src[pos.Offset:end.Offset])
	return hex.EncodeToString(h[:8])
}

// ---------------------------------------------------------------- exploration

type PathResult struct {
	Prefix       []Dec
	Decisions    []Dec
	Status       string // "done", "assume", "violation", "unsupported", "limit", "harness-panic"
	Msg          string
	Violation    *Violation
	Reached      []string
	Asserts      map[string]int
	AssertsConc  map[string]int
	Inconclusive []string
	Steps        int64
	Terms        int
	Pending      [][]Dec
	CacheHits    int
	Merged       int
	MergeAborts  int
	CrossN       int
	CrossUnknown int
	Known        map[string]*Violation
	SampleInputs map[string]interface{}
	SyncTrace    []string
	Emitted      []string
	Races        []RaceReport
	RaceStats    RaceStats
	RaceQueries  int64
	RaceSolverNS int64
	Funcs        []*ssa.Function
	Inputs       int
	Trace        []string
	WallMS       float64
}

type ExploreOpts struct {
	Workers       int
	MaxPaths      int
	MaxSteps      int64
	TimeoutMS     int // per query
	Solver        string
	Deadline      time.Time
	StopOnViolation bool
	TraceCalls    bool
	Fixed         map[string]Value // concrete values for inputs (replay inside the interpreter)
	Verbose       bool
	Params        map[string]int64 // harness parameters readable through vxGet
	CrossSolver   string
	SampleModels  int
}

type Summary struct {
	Harness      string
	Paths        int
	Done         int
	AssumeDrops  int
	Violations   []*Violation
	Unsupported  []string
	Inconclusive []string
	LimitHit     bool
	Truncated    bool
	Reached      map[string]int
	Asserts      map[string]int // symbolic discharges (solver said unsat)
	AssertsConc  map[string]int // concrete true
	Decisions    int64
	MaxDepth     int
	Steps        int64
	CacheHits    int
	Merged       int
	MergeAborts  int
	CrossN       int
	CrossUnknown int
	CrossStats   smt.Stats
	Known        map[string]*Violation
	Races        map[string]RaceReport
	RaceStats    RaceStats
	RaceQueries  int64
	RaceSolverNS int64
	SampleInputs []map[string]interface{}
	Stats        smt.Stats
	Funcs        map[*ssa.Function]bool
	SamplePaths  []map[string]interface{}
	WallS        float64
	SymPaths     int // paths with >= 1 symbolic decision
	DistinctSig  map[string]bool
}

// Explore runs harness fn over all feasible paths (within opts limits).
func (p *Program) Explore(fn *ssa.Function, opts ExploreOpts) *Summary {
	t0 := time.Now()
	if opts.Workers <= 0 {
		opts.Workers = 8
	}
	if opts.MaxSteps == 0 {
		opts.MaxSteps = 5_000_000
	}
	if opts.Solver == "" {
		opts.Solver = "z3-new"
	}
	if opts.TimeoutMS == 0 {
		opts.TimeoutMS = 240000
	}
	sum := &Summary{Harness: fn.Name(), Reached: map[string]int{}, Asserts: map[string]int{}, AssertsConc: map[string]int{},
		Funcs: map[*ssa.Function]bool{}, DistinctSig: map[string]bool{}, Known: map[string]*Violation{}, Races: map[string]RaceReport{}}
	var mu sync.Mutex
	cond := sync.NewCond(&mu)
	work := [][]Dec{{}}
	active := 0
	stop := false
	started := 0

	worker := func() {
		solver, err := smt.Start(opts.Solver, time.Duration(opts.TimeoutMS)*time.Millisecond, &sum.Stats)
		if err != nil {
			mu.Lock()
			sum.Unsupported = append(sum.Unsupported, "cannot start solver: "+err.Error())
			stop = true
			cond.Broadcast()
			mu.Unlock()
			return
		}
		defer func() { solver.Close() }()
		for {
			mu.Lock()
			for len(work) == 0 && active > 0 && !stop {
				cond.Wait()
			}
			if stop || (len(work) == 0 && active == 0) {
				cond.Broadcast()
				mu.Unlock()
				return
			}
			if opts.MaxPaths > 0 && started >= opts.MaxPaths {
				sum.Truncated = true
				stop = true
				cond.Broadcast()
				mu.Unlock()
				return
			}
			if !opts.Deadline.IsZero() && time.Now().After(opts.Deadline) {
				sum.Truncated = true
				stop = true
				cond.Broadcast()
				mu.Unlock()
				return
			}
			// depth-first: take the most recent prefix
			prefix := work[len(work)-1]
			work = work[:len(work)-1]
			active++
			started++
			mu.Unlock()

			if solver.Dead() {
				solver.Close()
				solver, err = smt.Start(opts.Solver, time.Duration(opts.TimeoutMS)*time.Millisecond, &sum.Stats)
				if err != nil {
					mu.Lock()
					sum.Unsupported = append(sum.Unsupported, "cannot restart solver: "+err.Error())
					stop = true
					active--
					cond.Broadcast()
					mu.Unlock()
					return
				}
			}
			mu.Lock()
			wantSample := len(sum.SampleInputs) < opts.SampleModels
			mu.Unlock()
			res := p.RunPath(fn, prefix, solver, opts, func(alt []Dec) {
				mu.Lock()
				work = append(work, alt)
				cond.Broadcast()
				mu.Unlock()
			}, &sum.CrossStats, wantSample)

			mu.Lock()
			active--
			sum.Paths++
			sum.Steps += res.Steps
			sum.CacheHits += res.CacheHits
			sum.Merged += res.Merged
			sum.MergeAborts += res.MergeAborts
			sum.CrossN += res.CrossN
			sum.CrossUnknown += res.CrossUnknown
			for _, rr := range res.Races {
				sum.Races[rr.SiteA+" | "+rr.SiteB] = rr
			}
			sum.RaceStats.Events += res.RaceStats.Events
			sum.RaceStats.SyncEvents += res.RaceStats.SyncEvents
			sum.RaceStats.Accesses += res.RaceStats.Accesses
			sum.RaceStats.Candidates += res.RaceStats.Candidates
			sum.RaceStats.Queries += res.RaceStats.Queries
			sum.RaceStats.Sat += res.RaceStats.Sat
			sum.RaceStats.Unsat += res.RaceStats.Unsat
			sum.RaceStats.Unknown += res.RaceStats.Unknown
			sum.RaceQueries += res.RaceQueries
			sum.RaceSolverNS += res.RaceSolverNS
			for k, v := range res.Known {
				if sum.Known[k] == nil {
					sum.Known[k] = v
				}
			}
			if res.SampleInputs != nil && len(sum.SampleInputs) < opts.SampleModels {
				sum.SampleInputs = append(sum.SampleInputs, res.SampleInputs)
			}
			sum.Decisions += int64(len(res.Decisions))
			if len(res.Decisions) > sum.MaxDepth {
				sum.MaxDepth = len(res.Decisions)
			}
			if len(res.Decisions) > 0 {
				sum.SymPaths++
			}
			for _, f := range res.Funcs {
				sum.Funcs[f] = true
			}
			switch res.Status {
			case "done":
				sum.Done++
				for _, r := range res.Reached {
					sum.Reached[r]++
				}
			case "assume":
				sum.AssumeDrops++
			case "violation":
				sum.Violations = append(sum.Violations, res.Violation)
				if opts.StopOnViolation {
					stop = true
				}
			case "limit":
				sum.LimitHit = true
				sum.Inconclusive = append(sum.Inconclusive, res.Msg)
			default:
				sum.Unsupported = append(sum.Unsupported, res.Status+": "+res.Msg)
			}
			for k, v := range res.Asserts {
				sum.Asserts[k] += v
			}
			for k, v := range res.AssertsConc {
				sum.AssertsConc[k] += v
			}
			sum.Inconclusive = append(sum.Inconclusive, res.Inconclusive...)
			if len(sum.SamplePaths) < 3 && res.Status == "done" && len(res.Decisions) > 0 {
				sum.SamplePaths = append(sum.SamplePaths, map[string]interface{}{
					"decisions": DecString(res.Decisions), "reached": res.Reached, "asserts_discharged": res.Asserts, "steps": res.Steps, "terms": res.Terms})
			}
			if res.Status != "assume" {
				sum.DistinctSig[DecString(res.Decisions)] = true
			}
			work = append(work, res.Pending...)
			if opts.Verbose {
				fmt.Fprintf(os.Stderr, "  path %d %v -> %s %s (steps %d, terms %d, %.0f ms, queue %d)\n", sum.Paths, DecString(res.Prefix), res.Status, res.Msg, res.Steps, res.Terms, res.WallMS, len(work))
			}
			cond.Broadcast()
			mu.Unlock()
		}
	}
	var wg sync.WaitGroup
	for i := 0; i < opts.Workers; i++ {
		wg.Add(1)
		go func() { defer wg.Done(); worker() }()
	}
	wg.Wait()
	sum.WallS = time.Since(t0).Seconds()
	return sum
}

// RunPath executes one path of the harness following the decision prefix.
func (p *Program) RunPath(fn *ssa.Function, prefix []Dec, solver *smt.Solver, opts ExploreOpts, onPending func([]Dec), crossStats *smt.Stats, wantSample bool) (res *PathResult) {
	t0 := time.Now()
	m := &Machine{
		Prog: p.Prog, C: sym.NewCtx(), S: solver,
		Cfg:    &Config{MaxSteps: opts.MaxSteps, TraceCalls: opts.TraceCalls},
		prefix: prefix, inputIdx: map[string]*InputDecl{}, reached: map[string]bool{},
		asserts: map[string]int{}, assertsConcrete: map[string]int{},
		globals: map[*ssa.Global]*Value{}, mutexW: map[*Value][]*G{}, wgCount: map[*Value]int64{}, wgW: map[*Value][]*G{},
		mapOrderSym: map[string]bool{}, Env: NewWorld(), Funcs: map[*ssa.Function]bool{},
		userData: map[string]Value{}, extTypeTab: map[string]types.Type{}, Fixed: opts.Fixed, onPending: onPending,
		NoMerge: os.Getenv("VERIF_NOMERGE") != "",
		knownW: map[string]*Violation{}, decided: map[*sym.Term]bool{}, builders: map[*Value]Value{}, traceChans: map[*Chan]bool{}, traceMutex: map[*Value]bool{}, mutexNames: map[*Value]string{}, CrossKind: opts.CrossSolver, CrossStats: crossStats,
	}
	res = &PathResult{Prefix: prefix}
	for k, v := range opts.Params {
		m.userData[k] = v
	}
	solver.Push()
	main := m.newG("main")
	main.state = gRunning
	m.cur = main
	func() {
		defer func() {
			r := recover()
			switch x := r.(type) {
			case nil:
				res.Status = "done"
			case pathAbort:
				res.Status, res.Msg = x.status, x.msg
			case goPanic:
				res.Status, res.Msg = "harness-panic", x.msg
			case runAbort:
				res.Status, res.Msg = "unsupported", "runAbort escaped"
			case gDie:
				res.Status, res.Msg = "unsupported", "gDie in main goroutine"
			default:
				res.Status, res.Msg = "unsupported", fmt.Sprintf("interpreter crash: %v\n%s", r, stackTrace())
			}
		}()
		// package initialisers of the scipipe packages (var declarations)
		for _, pk := range p.sortedPkgs() {
			if initf := pk.Func("init"); initf != nil {
				m.callFn(initf, nil, nil, nil)
			}
		}
		m.callFn(fn, nil, nil, nil)
	}()
	if res.Status == "done" && wantSample && len(m.decisions) > 0 && !solver.Dead() {
		if mod, r := m.modelNow(nil); r == smt.Sat {
			res.SampleInputs = m.inputsFromModel(mod)
		}
	}
	res.Known = m.knownW
	res.Races = m.RaceReports
	res.RaceStats = m.RaceStats
	if m.RaceSolverStats != nil {
		res.RaceQueries = m.RaceSolverStats.Queries
		res.RaceSolverNS = m.RaceSolverStats.SolverNS
	}
	res.SyncTrace = m.SyncTrace
	res.Emitted = m.Emitted
	res.CrossN = m.CrossN
	res.CrossUnknown = m.CrossUnknown
	m.cleanup()
	if !solver.Dead() {
		for solver.Depth() > 1 {
			solver.Pop()
		}
	}
	res.Decisions = m.decisions
	res.Violation = m.violation
	for r := range m.reached {
		res.Reached = append(res.Reached, r)
	}
	sort.Strings(res.Reached)
	res.Asserts = m.asserts
	res.AssertsConc = m.assertsConcrete
	res.Inconclusive = m.inconclusive
	res.Steps = m.steps
	res.Terms = m.C.NumTerms()
	res.Pending = m.pending
	res.CacheHits = m.CacheHits
	res.Merged, res.MergeAborts = m.Merged, m.MergeAborts
	res.Inputs = len(m.inputs)
	for f := range m.Funcs {
		res.Funcs = append(res.Funcs, f)
	}
	if res.Status != "done" && res.Status != "assume" {
		res.Trace = m.trace
		if res.Status != "violation" && len(m.trace) > 0 && opts.Verbose {
			n := len(m.trace)
			lo := n - 12
			if lo < 0 {
				lo = 0
			}
			res.Msg += " | trace tail: " + strings.Join(m.trace[lo:], " / ")
		}
	}
	res.WallMS = float64(time.Since(t0).Microseconds()) / 1000
	return res
}

func (p *Program) sortedPkgs() []*ssa.Package {
	var ks []string
	for k := range p.Pkgs {
		ks = append(ks, k)
	}
	sort.Strings(ks)
	var out []*ssa.Package
	for _, k := range ks {
		out = append(out, p.Pkgs[k])
	}
	return out
}

func stackTrace() string {
	buf := make([]byte, 6000)
	n := runtimeStack(buf)
	return string(buf[:n])
}
