package gose

import (
	"unicode"
	"crypto/sha1"
	"encoding/hex"
	"fmt"
	"go/token"
	"go/types"
	"path/filepath"
	"regexp"
	"sort"
	"strconv"
	"strings"

	"golang.org/x/tools/go/ssa"

	"verif/engine/sym"
)

type intrinsic func(m *Machine, fn *ssa.Function, args []Value) Value

var intrinsics = map[string]intrinsic{}

func reg(name string, f intrinsic) { intrinsics[name] = f }


// extType returns a synthetic named type standing for a modelled external type.
func (m *Machine) extType(kind string) types.Type {
	if t, ok := m.extTypeTab[kind]; ok {
		return t
	}
	var t types.Type
	if kind == "exiterror" {
		if p := m.Prog.ImportedPackage("os/exec"); p != nil {
			if tn := p.Type("ExitError"); tn != nil {
				t = types.NewPointer(tn.Type())
			}
		}
	}
	if t == nil {
		tn := types.NewTypeName(0, nil, "ext:"+kind, nil)
		t = types.NewNamed(tn, types.NewStruct(nil, nil), nil)
	}
	m.extTypeTab[kind] = t
	return t
}

func nilErr() Value { return Iface{} }

func (m *Machine) str(v Value) (string, bool) {
	v = m.normScalar(v)
	s, ok := v.(string)
	return s, ok
}

func (m *Machine) mustStr(v Value, what string) string {
	s, ok := m.str(v)
	if !ok {
		m.unsupported("%s: symbolic string where a concrete one is required", what)
	}
	return s
}

func strSlice(m *Machine, v Value) ([]Value, bool) {
	s, _ := v.(Slice)
	allc := true
	for _, e := range s {
		if _, ok := m.normScalar(e).(string); !ok {
			allc = false
		}
	}
	return s, allc
}

func goStrings(m *Machine, s []Value) []string {
	r := make([]string, len(s))
	for i, e := range s {
		r[i] = m.normScalar(e).(string)
	}
	return r
}

func toSlice(ss []string) Slice {
	r := make(Slice, len(ss))
	for i, s := range ss {
		r[i] = s
	}
	return r
}

// toNative converts a concrete value for fmt.
func (m *Machine) toNative(v Value) (interface{}, bool) {
	switch x := m.normScalar(v).(type) {
	case string:
		return x, true
	case int64:
		return int(x), true
	case bool:
		return x, true
	case float64:
		return x, true
	case nil:
		return nil, true
	case Iface:
		if x.T == nil {
			return nil, true
		}
		if e, ok := x.V.(*Ext); ok && e != nil {
			if s, ok := e.F["msg"].(string); ok {
				return fmt.Errorf("%s", s), true
			}
			return "<" + e.Kind + ">", true
		}
		if b, ok := x.T.Underlying().(*types.Basic); ok && b.Info()&types.IsInteger != 0 {
			if i, ok := x.V.(int64); ok {
				if isNamedDuration(x.T) {
					return fmt.Sprintf("%dns", i), true
				}
				return int(i), true
			}
		}
		n, ok := m.toNative(x.V)
		return n, ok
	case *Value, Struct, *Map, Slice, *Closure, *Chan, *Ext:
		return "<" + fmt.Sprintf("%T", x) + ">", true
	}
	return nil, false
}

func isNamedDuration(t types.Type) bool {
	n, ok := t.(*types.Named)
	return ok && n.Obj().Name() == "Duration"
}

// sprintf implements fmt.Sprintf for concrete formats; symbolic strings are supported
// for %s and %v.
func (m *Machine) sprintf(format string, args []Value) Value {
	allc := true
	natives := make([]interface{}, len(args))
	for i, a := range args {
		n, ok := m.toNative(a)
		if !ok {
			allc = false
		}
		natives[i] = n
	}
	if allc {
		return fmt.Sprintf(format, natives...)
	}
	var res Value = ""
	ai := 0
	lit := ""
	flush := func() {
		if lit != "" {
			res = m.binop(token.ADD, types.Typ[types.String], res, lit, nil)
			lit = ""
		}
	}
	for i := 0; i < len(format); i++ {
		ch := format[i]
		if ch != '%' {
			lit += string(ch)
			continue
		}
		i++
		if i >= len(format) {
			break
		}
		verb := format[i]
		if verb == '%' {
			lit += "%"
			continue
		}
		if ai >= len(args) {
			lit += "%!" + string(verb) + "(MISSING)"
			continue
		}
		a := args[ai]
		ai++
		if it, ok := a.(Iface); ok {
			a = it.V
		}
		a = m.normScalar(a)
		switch av := a.(type) {
		case *sym.Str:
			if verb != 's' && verb != 'v' {
				m.unsupported("Sprintf verb %%%c on symbolic string", verb)
			}
			flush()
			res = m.normScalar(m.C.Concat(m.strTerm(res), av))
		case *sym.Term:
			m.unsupported("Sprintf of a symbolic integer/bool")
		default:
			n, _ := m.toNative(args[ai-1])
			lit += fmt.Sprintf("%"+string(verb), n)
		}
	}
	flush()
	return res
}

func variadic(v Value) []Value {
	s, _ := v.(Slice)
	return []Value(s)
}

func (m *Machine) regexOf(v Value) *Ext {
	e, ok := v.(*Ext)
	if !ok || e == nil || e.Kind != "regexp" {
		m.unsupported("regexp receiver is %T", v)
	}
	return e
}

func (m *Machine) symRegex(e *Ext) *sym.Regex {
	if rx, ok := e.F["sym"].(*sym.Regex); ok {
		return rx
	}
	rx, err := sym.CompileRegex(e.F["src"].(string))
	if err != nil {
		m.unsupported("regex on symbolic subject outside the supported fragment: %v", err)
	}
	e.F["sym"] = rx
	return rx
}

func init() {
	// ------------------------------------------------------------ strings
	reg("strings.Replace", func(m *Machine, fn *ssa.Function, a []Value) Value {
		s, sok := m.str(a[0])
		old, ook := m.str(a[1])
		nw, nok := m.str(a[2])
		n := m.toInt(a[3])
		if sok && ook && nok {
			return strings.Replace(s, old, nw, int(n))
		}
		if !ook {
			m.unsupported("strings.Replace with symbolic pattern")
		}
		if old == "" {
			m.unsupported("strings.Replace with empty pattern on symbolic string")
		}
		return m.normScalar(m.C.Replace(m.strTerm(a[0]), old, m.strTerm(a[2]), int(n)))
	})
	reg("strings.ReplaceAll", func(m *Machine, fn *ssa.Function, a []Value) Value {
		s, sok := m.str(a[0])
		old, ook := m.str(a[1])
		nw, nok := m.str(a[2])
		if sok && ook && nok {
			return strings.ReplaceAll(s, old, nw)
		}
		if !ook || old == "" {
			m.unsupported("strings.ReplaceAll with symbolic/empty pattern")
		}
		return m.normScalar(m.C.Replace(m.strTerm(a[0]), old, m.strTerm(a[2]), -1))
	})
	reg("strings.Join", func(m *Machine, fn *ssa.Function, a []Value) Value {
		el, allc := strSlice(m, a[0])
		sep, sok := m.str(a[1])
		if allc && sok {
			return strings.Join(goStrings(m, el), sep)
		}
		parts := make([]*sym.Str, len(el))
		for i, e := range el {
			parts[i] = m.strTerm(m.normScalar(e))
		}
		return m.normScalar(m.C.Join(parts, m.strTerm(a[1])))
	})
	reg("strings.Split", func(m *Machine, fn *ssa.Function, a []Value) Value {
		if s, ok := m.str(a[0]); ok {
			return toSlice(strings.Split(s, m.mustStr(a[1], "strings.Split sep")))
		}
		sep := m.mustStr(a[1], "strings.Split sep")
		if sep == "" {
			m.unsupported("strings.Split of a symbolic string with an empty separator")
		}
		return m.symSplit(m.strTerm(a[0]), sep)
	})
	reg("strings.Fields", func(m *Machine, fn *ssa.Function, a []Value) Value {
		return toSlice(strings.Fields(m.mustStr(a[0], "strings.Fields")))
	})
	reg("strings.ToLower", func(m *Machine, fn *ssa.Function, a []Value) Value {
		if s, ok := m.str(a[0]); ok {
			return strings.ToLower(s)
		}
		return m.normScalar(m.C.ToLower(m.strTerm(a[0])))
	})
	reg("strings.ToUpper", func(m *Machine, fn *ssa.Function, a []Value) Value {
		return strings.ToUpper(m.mustStr(a[0], "strings.ToUpper"))
	})
	reg("strings.HasPrefix", func(m *Machine, fn *ssa.Function, a []Value) Value {
		s, sok := m.str(a[0])
		p, pok := m.str(a[1])
		if sok && pok {
			return strings.HasPrefix(s, p)
		}
		if !pok {
			return m.normBool(m.C.HasPrefixSym(m.strTerm(a[0]), m.strTerm(a[1])))
		}
		return m.normBool(m.C.HasPrefix(m.strTerm(a[0]), p))
	})
	reg("strings.HasSuffix", func(m *Machine, fn *ssa.Function, a []Value) Value {
		s, sok := m.str(a[0])
		p, pok := m.str(a[1])
		if sok && pok {
			return strings.HasSuffix(s, p)
		}
		if !pok {
			// symbolic suffix: |s| >= |p| and s[|s|-|p|:] == p
			c := m.C
			st, pt := m.strTerm(a[0]), m.strTerm(a[1])
			ok := c.Ule(pt.Len, st.Len)
			tail := c.Slice(st, c.Sub(st.Len, pt.Len), st.Len)
			return m.normBool(c.And(ok, c.StrEq(tail, pt)))
		}
		return m.normBool(m.C.HasSuffix(m.strTerm(a[0]), p))
	})
	reg("strings.Contains", func(m *Machine, fn *ssa.Function, a []Value) Value {
		s, sok := m.str(a[0])
		p, pok := m.str(a[1])
		if sok && pok {
			return strings.Contains(s, p)
		}
		if !pok {
			c := m.C
			return m.normBool(c.Not(c.Eq(c.IndexOfSym(m.strTerm(a[0]), m.strTerm(a[1])), c.BV(sym.LW, 1<<sym.LW-1))))
		}
		return m.normBool(m.C.Contains(m.strTerm(a[0]), p))
	})
	reg("strings.Index", func(m *Machine, fn *ssa.Function, a []Value) Value {
		s, sok := m.str(a[0])
		p, pok := m.str(a[1])
		if sok && pok {
			return int64(strings.Index(s, p))
		}
		if !pok {
			return m.normScalar(m.C.Sext(m.C.IndexOfSym(m.strTerm(a[0]), m.strTerm(a[1])), 32))
		}
		return m.C.Sext(m.C.IndexOf(m.strTerm(a[0]), p), 32)
	})
	reg("strings.LastIndex", func(m *Machine, fn *ssa.Function, a []Value) Value {
		s, sok := m.str(a[0])
		p, pok := m.str(a[1])
		if sok && pok {
			return int64(strings.LastIndex(s, p))
		}
		if !pok {
			return m.normScalar(m.C.Sext(m.C.LastIndexOfSym(m.strTerm(a[0]), m.strTerm(a[1])), 32))
		}
		return m.C.Sext(m.C.LastIndexOf(m.strTerm(a[0]), p), 32)
	})
	trimFn := func(name string, f func(string, string) string) {
		reg(name, func(m *Machine, fn *ssa.Function, a []Value) Value {
			s, sok := m.str(a[0])
			p, pok := m.str(a[1])
			if sok && pok {
				return f(s, p)
			}
			if !pok {
				m.unsupported("%s with symbolic second argument", name)
			}
			c := m.C
			st := m.strTerm(a[0])
			switch name {
			case "strings.TrimPrefix":
				has := c.HasPrefix(st, p)
				lo := c.Ite(has, c.L(len(p)), c.L(0))
				return m.normScalar(c.Slice(st, lo, st.Len))
			case "strings.TrimSuffix":
				has := c.HasSuffix(st, p)
				hi := c.Ite(has, c.Sub(st.Len, c.L(len(p))), st.Len)
				return m.normScalar(c.Slice(st, c.L(0), hi))
			case "strings.TrimRight", "strings.TrimLeft", "strings.Trim":
				inset := func(ch *sym.Term) *sym.Term { return c.CharIn(ch, p) }
				lo := c.L(0)
				hi := st.Len
				if name != "strings.TrimRight" {
					// lo = first index whose char is not in the set
					lo = st.Len
					for j := len(st.Ch) - 1; j >= 0; j-- {
						lo = c.Ite(c.And(c.Ult(c.L(j), st.Len), c.Not(inset(st.Ch[j]))), c.L(j), lo)
					}
				}
				if name != "strings.TrimLeft" {
					// hi = 1 + last index whose char is not in the set (>= lo)
					hi = lo
					for j := 0; j < len(st.Ch); j++ {
						hi = c.Ite(c.And(c.Ult(c.L(j), st.Len), c.Not(inset(st.Ch[j])), c.Ule(lo, c.L(j))), c.L(j+1), hi)
					}
				}
				return m.normScalar(c.Slice(st, lo, hi))
			}
			m.unsupported("%s on symbolic string", name)
			return nil
		})
	}
	trimFn("strings.TrimPrefix", strings.TrimPrefix)
	trimFn("strings.TrimSuffix", strings.TrimSuffix)
	trimFn("strings.TrimRight", strings.TrimRight)
	trimFn("strings.TrimLeft", strings.TrimLeft)
	trimFn("strings.Trim", strings.Trim)
	reg("strings.TrimSpace", func(m *Machine, fn *ssa.Function, a []Value) Value {
		return strings.TrimSpace(m.mustStr(a[0], "strings.TrimSpace"))
	})
	reg("strings.Count", func(m *Machine, fn *ssa.Function, a []Value) Value {
		if _, ok := m.str(a[0]); !ok {
			if p, pok := m.str(a[1]); pok && len(p) == 1 {
				return intrinsics["internal/bytealg.CountString"](m, fn, []Value{a[0], int64(p[0])})
			}
		}
		return int64(strings.Count(m.mustStr(a[0], "strings.Count"), m.mustStr(a[1], "strings.Count")))
	})
	reg("strings.Repeat", func(m *Machine, fn *ssa.Function, a []Value) Value {
		return strings.Repeat(m.mustStr(a[0], "strings.Repeat"), int(m.toInt(a[1])))
	})
	reg("strings.EqualFold", func(m *Machine, fn *ssa.Function, a []Value) Value {
		return strings.EqualFold(m.mustStr(a[0], "EqualFold"), m.mustStr(a[1], "EqualFold"))
	})

	// ------------------------------------------------------------ path/filepath
	pathFn := func(name string, conc func(string) string, symf func(c *sym.Ctx, s *sym.Str) *sym.Str) {
		reg(name, func(m *Machine, fn *ssa.Function, a []Value) Value {
			if s, ok := m.str(a[0]); ok {
				return conc(s)
			}
			st := m.strTerm(a[0])
			// precondition of the symbolic model: clean-normal path
			cl := m.C.CleanPath(st)
			if !m.provable(cl) {
				m.unsupported("%s on a symbolic path that is not provably clean-normal (assume vxCleanPath first)", name)
			}
			return m.normScalar(symf(m.C, st))
		})
	}
	pathFn("path/filepath.Dir", filepath.Dir, func(c *sym.Ctx, s *sym.Str) *sym.Str { return c.PathDir(s) })
	pathFn("path/filepath.Base", filepath.Base, func(c *sym.Ctx, s *sym.Str) *sym.Str { return c.PathBase(s) })
	pathFn("path/filepath.Clean", filepath.Clean, func(c *sym.Ctx, s *sym.Str) *sym.Str { return s })
	pathFn("path.Dir", filepath.Dir, func(c *sym.Ctx, s *sym.Str) *sym.Str { return c.PathDir(s) })
	pathFn("path.Base", filepath.Base, func(c *sym.Ctx, s *sym.Str) *sym.Str { return c.PathBase(s) })
	reg("path/filepath.Join", func(m *Machine, fn *ssa.Function, a []Value) Value {
		el, allc := strSlice(m, a[0])
		if allc {
			return filepath.Join(goStrings(m, el)...)
		}
		// symbolic: every element must be provably clean-normal, relative (except the
		// first) and not start with ".."; then Join is concatenation with "/".
		c := m.C
		parts := []*sym.Str{}
		for i, e := range el {
			st := m.strTerm(m.normScalar(e))
			if g, ok := st.Concrete(); ok {
				if g == "" {
					continue
				}
				if filepath.Clean(g) != g || (i > 0 && (filepath.IsAbs(g) || strings.HasPrefix(g, ".."))) || g == "." {
					m.unsupported("filepath.Join: concrete element %q not clean-normal", g)
				}
			} else {
				ok := c.CleanPath(st)
				if i > 0 {
					ok = c.And(ok, c.Not(c.HasPrefix(st, "/")), c.Not(c.HasPrefix(st, "..")))
				}
				ok = c.And(ok, c.Not(c.StrEq(st, c.StrConst("."))))
				if !m.provable(ok) {
					m.unsupported("filepath.Join on a symbolic element that is not provably clean-normal and relative")
				}
			}
			parts = append(parts, st)
		}
		return m.normScalar(c.Join(parts, c.StrConst("/")))
	})
	reg("path/filepath.IsAbs", func(m *Machine, fn *ssa.Function, a []Value) Value {
		if s, ok := m.str(a[0]); ok {
			return filepath.IsAbs(s)
		}
		return m.normBool(m.C.HasPrefix(m.strTerm(a[0]), "/"))
	})
	reg("path/filepath.Ext", func(m *Machine, fn *ssa.Function, a []Value) Value {
		return filepath.Ext(m.mustStr(a[0], "filepath.Ext"))
	})
	reg("path/filepath.Abs", func(m *Machine, fn *ssa.Function, a []Value) Value {
		return Tuple{m.Env.abs(m.mustStr(a[0], "filepath.Abs")), nilErr()}
	})

	// ------------------------------------------------------------ regexp
	compile := func(m *Machine, fn *ssa.Function, a []Value) (Value, error) {
		src := m.mustStr(a[0], "regexp.Compile")
		re, err := regexp.Compile(src)
		if err != nil {
			return nil, err
		}
		return &Ext{Kind: "regexp", F: map[string]Value{"src": src, "native": re}}, nil
	}
	reg("regexp.MustCompile", func(m *Machine, fn *ssa.Function, a []Value) Value {
		r, err := compile(m, fn, a)
		if err != nil {
			panic(goPanic{msg: "regexp: " + err.Error()})
		}
		return r
	})
	reg("regexp.Compile", func(m *Machine, fn *ssa.Function, a []Value) Value {
		r, err := compile(m, fn, a)
		if err != nil {
			return Tuple{(*Ext)(nil), m.errVal("regexp", err.Error())}
		}
		return Tuple{r, nilErr()}
	})
	reg("(*regexp.Regexp).MatchString", func(m *Machine, fn *ssa.Function, a []Value) Value {
		e := m.regexOf(a[0])
		if s, ok := m.str(a[1]); ok {
			return e.F["native"].(*regexp.Regexp).MatchString(s)
		}
		return m.normBool(m.symRegex(e).Match(m.C, m.strTerm(a[1])))
	})
	reg("(*regexp.Regexp).ReplaceAllString", func(m *Machine, fn *ssa.Function, a []Value) Value {
		e := m.regexOf(a[0])
		s, sok := m.str(a[1])
		r, rok := m.str(a[2])
		if sok && rok {
			return e.F["native"].(*regexp.Regexp).ReplaceAllString(s, r)
		}
		if rok && strings.Contains(r, "$") {
			m.unsupported("ReplaceAllString with $ expansion on symbolic subject")
		}
		res, err := m.symRegex(e).ReplaceAll(m.C, m.strTerm(a[1]), m.strTerm(a[2]))
		if err != nil {
			m.unsupported("%v", err)
		}
		return m.normScalar(res)
	})
	reg("(*regexp.Regexp).FindStringSubmatch", func(m *Machine, fn *ssa.Function, a []Value) Value {
		e := m.regexOf(a[0])
		r := e.F["native"].(*regexp.Regexp).FindStringSubmatch(m.mustStr(a[1], "FindStringSubmatch"))
		if r == nil {
			return Slice(nil)
		}
		return toSlice(r)
	})
	reg("(*regexp.Regexp).FindAllStringSubmatch", func(m *Machine, fn *ssa.Function, a []Value) Value {
		e := m.regexOf(a[0])
		r := e.F["native"].(*regexp.Regexp).FindAllStringSubmatch(m.mustStr(a[1], "FindAllStringSubmatch"), int(m.toInt(a[2])))
		if r == nil {
			return Slice(nil)
		}
		out := make(Slice, len(r))
		for i, x := range r {
			out[i] = toSlice(x)
		}
		return out
	})
	reg("(*regexp.Regexp).FindString", func(m *Machine, fn *ssa.Function, a []Value) Value {
		e := m.regexOf(a[0])
		return e.F["native"].(*regexp.Regexp).FindString(m.mustStr(a[1], "FindString"))
	})
	reg("(*regexp.Regexp).String", func(m *Machine, fn *ssa.Function, a []Value) Value {
		return m.regexOf(a[0]).F["src"]
	})
	reg("regexp.MatchString", func(m *Machine, fn *ssa.Function, a []Value) Value {
		ok, err := regexp.MatchString(m.mustStr(a[0], "regexp.MatchString"), m.mustStr(a[1], "regexp.MatchString"))
		if err != nil {
			return Tuple{false, m.errVal("regexp", err.Error())}
		}
		return Tuple{ok, nilErr()}
	})

	// ------------------------------------------------------------ fmt / errors / strconv / sort
	reg("fmt.Sprintf", func(m *Machine, fn *ssa.Function, a []Value) Value {
		return m.sprintf(m.mustStr(a[0], "Sprintf format"), variadic(a[1]))
	})
	reg("fmt.Sprint", func(m *Machine, fn *ssa.Function, a []Value) Value {
		args := variadic(a[0])
		f := strings.Repeat("%v", len(args))
		return m.sprintf(f, args)
	})
	reg("fmt.Sprintln", func(m *Machine, fn *ssa.Function, a []Value) Value {
		args := variadic(a[0])
		f := strings.TrimSpace(strings.Repeat("%v ", len(args))) + "\n"
		return m.sprintf(f, args)
	})
	reg("fmt.Errorf", func(m *Machine, fn *ssa.Function, a []Value) Value {
		format := m.mustStr(a[0], "Errorf format")
		args := variadic(a[1])
		// %w: the operand is the wrapped error (errors.Is / errors.Unwrap / errors.As see it)
		var wrapped Value
		if strings.Contains(format, "%w") {
			verbs := 0
			for i := 0; i+1 < len(format); i++ {
				if format[i] == '%' {
					if format[i+1] == '%' {
						i++
						continue
					}
					j := i + 1
					for j < len(format) && strings.IndexByte("+-# 0123456789.", format[j]) >= 0 {
						j++
					}
					if j < len(format) && format[j] == 'w' && verbs < len(args) {
						wrapped = args[verbs]
					}
					verbs++
					i = j
				}
			}
			format = strings.ReplaceAll(format, "%w", "%v")
		}
		s, _ := m.str(m.sprintfLoose(format, args))
		e := m.errVal("generic", s)
		if wrapped != nil {
			e.V.(*Ext).F["wrapped"] = wrapped
		}
		return e
	})
	reg("errors.Unwrap", func(m *Machine, fn *ssa.Function, a []Value) Value {
		if i, ok := a[0].(Iface); ok && i.T != nil {
			if e, ok := i.V.(*Ext); ok && e != nil {
				if w, ok := e.F["wrapped"]; ok {
					return w
				}
			}
		}
		return Iface{}
	})
	for _, n := range []string{"fmt.Println", "fmt.Printf", "fmt.Print", "fmt.Fprintf", "fmt.Fprintln", "fmt.Fprint"} {
		reg(n, func(m *Machine, fn *ssa.Function, a []Value) Value { return Tuple{int64(0), nilErr()} })
	}
	reg("errors.New", func(m *Machine, fn *ssa.Function, a []Value) Value {
		s, ok := m.str(a[0])
		if !ok {
			s = "<symbolic message>"
		}
		return m.errVal("generic", s)
	})
	reg("strconv.Itoa", func(m *Machine, fn *ssa.Function, a []Value) Value {
		return strconv.Itoa(int(m.toInt(a[0])))
	})
	reg("strconv.Atoi", func(m *Machine, fn *ssa.Function, a []Value) Value {
		i, err := strconv.Atoi(m.mustStr(a[0], "Atoi"))
		if err != nil {
			return Tuple{int64(0), m.errVal("strconv", err.Error())}
		}
		return Tuple{int64(i), nilErr()}
	})
	reg("strconv.FormatFloat", func(m *Machine, fn *ssa.Function, a []Value) Value {
		return strconv.FormatFloat(a[0].(float64), byte(m.toInt(a[1])), int(m.toInt(a[2])), int(m.toInt(a[3])))
	})
	reg("sort.Strings", func(m *Machine, fn *ssa.Function, a []Value) Value {
		s := a[0].(Slice)
		m.sortValues(s, func(x, y Value) bool {
			return m.DecideV(m.binop(token.LSS, types.Typ[types.String], x, y, nil))
		})
		return nil
	})
	reg("sort.Slice", func(m *Machine, fn *ssa.Function, a []Value) Value {
		it := a[0].(Iface)
		s := it.V.(Slice)
		less := a[1]
		// insertion sort calling the real less closure on indices: we sort a permutation
		// by repeatedly swapping adjacent elements in place, as less reads the slice
		n := len(s)
		for i := 1; i < n; i++ {
			for j := i; j > 0; j-- {
				r := m.callValue(less, []Value{int64(j), int64(j - 1)}, nil)
				if !m.DecideV(r) {
					break
				}
				s[j], s[j-1] = s[j-1], s[j]
			}
		}
		return nil
	})
	reg("sort.SliceStable", intrinsics["sort.Slice"])

	// ------------------------------------------------------------ hashing
	reg("crypto/sha1.Sum", func(m *Machine, fn *ssa.Function, a []Value) Value {
		switch b := a[0].(type) {
		case Slice:
			conc := true
			bs := make([]byte, len(b))
			for i, e := range b {
				if v, ok := e.(int64); ok {
					bs[i] = byte(v)
				} else {
					conc = false
				}
			}
			if conc {
				d := sha1.Sum(bs)
				r := make(Array, 20)
				for i := range r {
					r[i] = int64(d[i])
				}
				return r
			}
			return m.idealHash(m.convertBytesToStr(b).(*sym.Str))
		case *SymBytes:
			if g, ok := b.S.Concrete(); ok {
				d := sha1.Sum([]byte(g))
				r := make(Array, 20)
				for i := range r {
					r[i] = int64(d[i])
				}
				return r
			}
			return m.idealHash(b.S)
		}
		m.unsupported("sha1.Sum of %T", a[0])
		return nil
	})
	reg("encoding/hex.EncodeToString", func(m *Machine, fn *ssa.Function, a []Value) Value {
		b := a[0].(Slice)
		conc := true
		for _, e := range b {
			if _, ok := e.(int64); !ok {
				conc = false
			}
		}
		if conc {
			bs := make([]byte, len(b))
			for i, e := range b {
				bs[i] = byte(e.(int64))
			}
			return hex.EncodeToString(bs)
		}
		ts := make([]*sym.Term, len(b))
		for i, e := range b {
			ts[i] = m.C.Resize(m.intTerm(e, types.Typ[types.Uint8]), 8, false)
		}
		return m.C.HexOfBytes(ts)
	})
	reg("github.com/scipipe/scipipe.randSeqLC", func(m *Machine, fn *ssa.Function, a []Value) Value {
		m.idN++
		return fmt.Sprintf("id%018d", m.idN)
	})

	// ------------------------------------------------------------ log
	for _, n := range []string{"Printf", "Println", "Print", "Fatalln", "Fatalf", "Fatal", "Panicf", "Panicln", "SetOutput", "SetFlags", "SetPrefix"} {
		name := n
		reg("(*log.Logger)."+name, func(m *Machine, fn *ssa.Function, a []Value) Value {
			if !strings.HasPrefix(name, "Set") && len(a) > 0 {
				if lg, ok := a[0].(*Ext); ok && lg != nil {
					m.loggerWrite(lg)
				}
			}
			if strings.HasPrefix(name, "Fatal") {
				m.osExit(1, "log.Fatal")
			}
			return nil
		})
		reg("log."+name, intrinsics["(*log.Logger)."+name])
	}
	// a logger owns a mutex and writes to its sink under it; what is logged is not
	// modelled, the synchronisation of the sink is (race analysis)
	reg("log.New", func(m *Machine, fn *ssa.Function, a []Value) Value {
		mu := new(Value)
		*mu = Struct{int64(0), int64(0)}
		return &Ext{Kind: "logger", F: map[string]Value{"w": a[0], "mu": mu}}
	})
	reg("io.MultiWriter", func(m *Machine, fn *ssa.Function, a []Value) Value {
		return Iface{T: m.extType("writer"), V: &Ext{Kind: "writer", F: map[string]Value{"ws": a[0]}}}
	})

	// ------------------------------------------------------------ sync
	reg("(*sync.Mutex).Lock", func(m *Machine, fn *ssa.Function, a []Value) Value { m.mutexLock(a[0].(*Value)); return nil })
	reg("(*sync.Mutex).Unlock", func(m *Machine, fn *ssa.Function, a []Value) Value { m.mutexUnlock(a[0].(*Value)); return nil })
	reg("(*sync.RWMutex).Lock", intrinsics["(*sync.Mutex).Lock"])
	reg("(*sync.RWMutex).Unlock", intrinsics["(*sync.Mutex).Unlock"])
	reg("(*sync.WaitGroup).Add", func(m *Machine, fn *ssa.Function, a []Value) Value { m.wgAdd(a[0].(*Value), m.toInt(a[1])); return nil })
	reg("(*sync.WaitGroup).Done", func(m *Machine, fn *ssa.Function, a []Value) Value { m.wgAdd(a[0].(*Value), -1); return nil })
	reg("(*sync.WaitGroup).Wait", func(m *Machine, fn *ssa.Function, a []Value) Value { m.wgWait(a[0].(*Value)); return nil })

	// ------------------------------------------------------------ time
	reg("time.Now", func(m *Machine, fn *ssa.Function, a []Value) Value {
		return Struct{int64(0), m.now(), (*Value)(nil)}
	})
	reg("(time.Time).Sub", func(m *Machine, fn *ssa.Function, a []Value) Value {
		x, y := a[0].(Struct)[1], a[1].(Struct)[1]
		return m.binop(token.SUB, types.Typ[types.Int64], x, y, nil)
	})
	reg("(time.Time).Before", func(m *Machine, fn *ssa.Function, a []Value) Value {
		return m.binop(token.LSS, types.Typ[types.Int64], a[0].(Struct)[1], a[1].(Struct)[1], nil)
	})
	reg("(time.Time).After", func(m *Machine, fn *ssa.Function, a []Value) Value {
		return m.binop(token.GTR, types.Typ[types.Int64], a[0].(Struct)[1], a[1].(Struct)[1], nil)
	})
	reg("(time.Time).Equal", func(m *Machine, fn *ssa.Function, a []Value) Value {
		return m.eqValue(a[0].(Struct)[1], a[1].(Struct)[1])
	})
	reg("(time.Time).IsZero", func(m *Machine, fn *ssa.Function, a []Value) Value {
		return m.eqValue(a[0].(Struct)[1], int64(0))
	})
	reg("(time.Time).UnixNano", func(m *Machine, fn *ssa.Function, a []Value) Value { return a[0].(Struct)[1] })
	reg("(time.Time).Format", func(m *Machine, fn *ssa.Function, a []Value) Value {
		if v, ok := a[0].(Struct)[1].(int64); ok {
			return fmt.Sprintf("T%d", v)
		}
		m.unsupported("time.Format on symbolic instant")
		return nil
	})
	reg("time.Unix", func(m *Machine, fn *ssa.Function, a []Value) Value {
		sec, ns := m.toInt(a[0]), m.toInt(a[1])
		return Struct{int64(0), sec*1000000000 + ns, (*Value)(nil)}
	})
	reg("time.Sleep", func(m *Machine, fn *ssa.Function, a []Value) Value { m.yield(); return nil })
	reg("time.Since", func(m *Machine, fn *ssa.Function, a []Value) Value {
		return m.binop(token.SUB, types.Typ[types.Int64], m.now(), a[0].(Struct)[1], nil)
	})
	reg("(time.Duration).Seconds", func(m *Machine, fn *ssa.Function, a []Value) Value {
		return float64(m.toInt(a[0])) / 1e9
	})
	reg("(time.Duration).String", func(m *Machine, fn *ssa.Function, a []Value) Value {
		if v, ok := a[0].(int64); ok {
			return fmt.Sprintf("%dns", v)
		}
		return "<duration>"
	})
	reg("math/rand.NewSource", func(m *Machine, fn *ssa.Function, a []Value) Value { return Iface{} })
	reg("math/rand.New", func(m *Machine, fn *ssa.Function, a []Value) Value { return &Ext{Kind: "rand"} })
}

func init() {
	// assembly-backed helpers of internal/bytealg (concrete arguments only)
	reg("internal/bytealg.IndexByteString", func(m *Machine, fn *ssa.Function, a []Value) Value {
		if _, ok := m.str(a[0]); !ok {
			if b, isC := a[1].(int64); isC {
				return m.normScalar(m.C.Sext(m.C.IndexOf(m.strTerm(a[0]), string([]byte{byte(b)})), 32))
			}
		}
		if bt, isT := a[1].(*sym.Term); isT {
			return m.normScalar(m.C.Sext(m.C.IndexOfCh(m.strTerm(a[0]), bt), 32))
		}
		return int64(strings.IndexByte(m.mustStr(a[0], "IndexByteString"), byte(m.toInt(a[1]))))
	})
	reg("internal/bytealg.CountString", func(m *Machine, fn *ssa.Function, a []Value) Value {
		if _, ok := m.str(a[0]); !ok {
			if b, isC := a[1].(int64); isC {
				st := m.strTerm(a[0])
				c := m.C
				acc := c.BV(32, 0)
				for i, ch := range st.Ch {
					hit := c.And(c.Ult(c.L(i), st.Len), c.Eq(ch, c.BV(8, uint64(byte(b)))))
					acc = c.Add(acc, c.Ite(hit, c.BV(32, 1), c.BV(32, 0)))
				}
				return m.normScalar(acc)
			}
		}
		return int64(strings.Count(m.mustStr(a[0], "CountString"), string([]byte{byte(m.toInt(a[1]))})))
	})
	reg("internal/bytealg.IndexString", func(m *Machine, fn *ssa.Function, a []Value) Value {
		if _, ok := m.str(a[0]); !ok {
			if p, pok := m.str(a[1]); pok {
				return m.normScalar(m.C.Sext(m.C.IndexOf(m.strTerm(a[0]), p), 32))
			}
		}
		if _, pok := m.str(a[1]); !pok {
			return m.normScalar(m.C.Sext(m.C.IndexOfSym(m.strTerm(a[0]), m.strTerm(a[1])), 32))
		}
		return int64(strings.Index(m.mustStr(a[0], "IndexString"), m.mustStr(a[1], "IndexString")))
	})
	reg("internal/bytealg.LastIndexByteString", func(m *Machine, fn *ssa.Function, a []Value) Value {
		if _, ok := m.str(a[0]); !ok {
			if b, isC := a[1].(int64); isC {
				return m.normScalar(m.C.Sext(m.C.LastIndexOf(m.strTerm(a[0]), string([]byte{byte(b)})), 32))
			}
		}
		return int64(strings.LastIndexByte(m.mustStr(a[0], "LastIndexByteString"), byte(m.toInt(a[1]))))
	})
	reg("strings.IndexByte", func(m *Machine, fn *ssa.Function, a []Value) Value {
		if s, ok := m.str(a[0]); ok {
			if b, ok := a[1].(int64); ok {
				return int64(strings.IndexByte(s, byte(b)))
			}
		}
		b, ok := a[1].(int64)
		if !ok {
			return m.normScalar(m.C.Sext(m.C.IndexOfCh(m.strTerm(a[0]), m.intTerm(a[1], types.Typ[types.Uint8])), 32))
		}
		return m.C.Sext(m.C.IndexOf(m.strTerm(a[0]), string([]byte{byte(b)})), 32)
	})
	reg("strings.LastIndexByte", func(m *Machine, fn *ssa.Function, a []Value) Value {
		b, ok := a[1].(int64)
		if !ok {
			return m.normScalar(m.C.Sext(m.C.LastIndexOfCh(m.strTerm(a[0]), m.intTerm(a[1], types.Typ[types.Uint8])), 32))
		}
		if s, ok := m.str(a[0]); ok {
			return int64(strings.LastIndexByte(s, byte(b)))
		}
		return m.C.Sext(m.C.LastIndexOf(m.strTerm(a[0]), string([]byte{byte(b)})), 32)
	})
}

func init() {
	// strings.Builder: the accumulated text lives beside the struct (its own fields use
	// unsafe pointers); all methods are modelled
	get := func(m *Machine, a Value) (*Value, Value) {
		p := a.(*Value)
		if v, ok := m.builders[p]; ok {
			return p, v
		}
		return p, ""
	}
	reg("(*strings.Builder).WriteString", func(m *Machine, fn *ssa.Function, a []Value) Value {
		p, cur := get(m, a[0])
		m.builders[p] = m.concatV(cur, a[1])
		return Tuple{m.lenOfStr(a[1]), nilErr()}
	})
	reg("(*strings.Builder).WriteByte", func(m *Machine, fn *ssa.Function, a []Value) Value {
		p, cur := get(m, a[0])
		switch b := a[1].(type) {
		case int64:
			m.builders[p] = m.concatV(cur, string([]byte{byte(b)}))
		case *sym.Term:
			m.builders[p] = m.concatV(cur, &sym.Str{Len: m.C.L(1), Ch: []*sym.Term{m.C.Resize(b, 8, false)}})
		}
		return nilErr()
	})
	reg("(*strings.Builder).WriteRune", func(m *Machine, fn *ssa.Function, a []Value) Value {
		p, cur := get(m, a[0])
		r := m.toInt(a[1])
		m.builders[p] = m.concatV(cur, string(rune(r)))
		return Tuple{int64(len(string(rune(r)))), nilErr()}
	})
	reg("(*strings.Builder).Write", func(m *Machine, fn *ssa.Function, a []Value) Value {
		p, cur := get(m, a[0])
		d := m.bytesToData(a[1])
		m.builders[p] = m.concatV(cur, d)
		return Tuple{m.lenOfStr(d), nilErr()}
	})
	reg("(*strings.Builder).String", func(m *Machine, fn *ssa.Function, a []Value) Value {
		_, cur := get(m, a[0])
		return cur
	})
	reg("(*strings.Builder).Len", func(m *Machine, fn *ssa.Function, a []Value) Value {
		_, cur := get(m, a[0])
		return m.lenOfStr(cur)
	})
	reg("(*strings.Builder).Reset", func(m *Machine, fn *ssa.Function, a []Value) Value {
		p, _ := get(m, a[0])
		delete(m.builders, p)
		return nil
	})
	reg("(*strings.Builder).Grow", func(m *Machine, fn *ssa.Function, a []Value) Value { return nil })
	reg("(*strings.Builder).Cap", func(m *Machine, fn *ssa.Function, a []Value) Value { return int64(64) })
}

func (m *Machine) lenOfStr(v Value) Value {
	switch x := m.normScalar(v).(type) {
	case string:
		return int64(len(x))
	case *sym.Str:
		if x.Len.IsConst() {
			return int64(x.Len.Val)
		}
		return m.C.Zext(x.Len, 32)
	}
	return int64(0)
}

// sprintfLoose formats for messages only (never fails on symbolic arguments).
func (m *Machine) sprintfLoose(format string, args []Value) Value {
	natives := make([]interface{}, len(args))
	for i, a := range args {
		n, ok := m.toNative(a)
		if !ok {
			n = "<sym>"
		}
		natives[i] = n
	}
	return fmt.Sprintf(format, natives...)
}

// provable: pc implies t.
func (m *Machine) provable(t *sym.Term) bool {
	if t.IsTrue() {
		return true
	}
	if t.IsFalse() {
		return false
	}
	return !m.feasible(m.C.Not(t))
}

func (m *Machine) sortValues(s Slice, less func(a, b Value) bool) {
	allc := true
	for _, e := range s {
		if _, ok := m.normScalar(e).(string); !ok {
			allc = false
		}
	}
	if allc {
		sort.SliceStable(s, func(i, j int) bool { return m.normScalar(s[i]).(string) < m.normScalar(s[j]).(string) })
		return
	}
	for i := 1; i < len(s); i++ {
		for j := i; j > 0; j-- {
			if !less(s[j], s[j-1]) {
				break
			}
			s[j], s[j-1] = s[j-1], s[j]
		}
	}
}

// idealHash models SHA-1 as an injective function with fresh output bytes.
func (m *Machine) idealHash(in *sym.Str) Value {
	c := m.C
	m.fresh++
	out := make([]*sym.Term, 20)
	r := make(Array, 20)
	for i := range out {
		out[i] = c.Var(fmt.Sprintf("sha1#%d.%d", m.fresh, i), 8)
		r[i] = out[i]
	}
	for _, h := range m.hashApps {
		same := c.StrEq(h.in, in)
		eq := c.T
		for i := range out {
			eq = c.And(eq, c.Eq(h.out[i], out[i]))
		}
		m.assertPC(c.Eq(same, eq))
	}
	m.hashApps = append(m.hashApps, hashApp{in: in, out: out})
	return r
}

func (m *Machine) osExit(code int64, why string) {
	m.Env.event(m, "exit", code, why)
	g := m.cur
	m.endRun(g, "exit", code, why)
	panic(gDie{})
}

// callExternalFallback handles families of external functions by prefix.
func (m *Machine) callExternalFallback(fn *ssa.Function, args []Value) (Value, bool) {
	return nil, false
}

// extMethod dispatches interface method calls on modelled objects.
func (m *Machine) extMethod(e *Ext, name string, args []Value) Value {
	switch {
	case strings.HasPrefix(e.Kind, "error:"), e.Kind == "exiterror":
		if name == "Error" {
			if s, ok := e.F["msg"].(string); ok {
				return s
			}
			return e.Kind
		}
	case e.Kind == "fileinfo":
		switch name {
		case "IsDir":
			return e.F["isdir"]
		case "Name":
			return e.F["name"]
		case "Size":
			if n, ok := e.F["node"].(*Node); ok && n != nil && n.C != nil {
				d := n.C.Data
				if ls, isL := d.(*Lines); isL {
					if s, ok := m.linesToData(ls); ok {
						d = s
					}
				}
				switch x := d.(type) {
				case *JSONBlob:
					return jsonLen(x)
				case string:
					return int64(len(x))
				case *sym.Str:
					return m.normScalar(m.C.Zext(x.Len, 64))
				}
			}
			return int64(1)
		case "Mode", "Type":
			if xk, has := e.F["xkind"]; has && xk != nil {
				// a file the command left behind, of a kind chosen by the harness / solver (Lstat view)
				modes := []uint64{0644, 1<<27 | 0777, 1<<25 | 0644, 1<<24 | 0755}
				if name == "Type" {
					modes = []uint64{0, 1 << 27, 1 << 25, 1 << 24}
				}
				switch k := xk.(type) {
				case int64:
					if k >= 0 && int(k) < len(modes) {
						return int64(modes[k])
					}
					return int64(modes[0])
				case *sym.Term:
					c := m.C
					r := c.BV(32, modes[0])
					for i := 1; i < len(modes); i++ {
						r = c.Ite(c.Eq(k, c.BV(k.Width, uint64(i))), c.BV(32, modes[i]), r)
					}
					return r
				}
			}
			if b, _ := e.F["isdir"].(bool); b {
				return int64(1<<31 | 0755)
			}
			if n, ok := e.F["node"].(*Node); ok && n != nil && n.Kind == KFifo {
				return int64(1<<25 | 0644)
			}
			if name == "Type" {
				return int64(0)
			}
			return int64(0644)
		case "ModTime":
			if n, ok := e.F["node"].(*Node); ok && n != nil && n.MTime != nil {
				return Struct{int64(0), n.MTime, (*Value)(nil)}
			}
			return Struct{int64(0), int64(0), (*Value)(nil)}
		case "Sys":
			return Iface{}
		case "Info":
			return Tuple{Iface{T: m.extType("fileinfo"), V: e}, nilErr()}
		}
	}
	m.unsupported("method %s on modelled object %s", name, e.Kind)
	return nil
}

// symSplit: strings.Split of a symbolic string by a concrete non-empty separator. The
// length and the separator positions are decided (forking where they are not already
// fixed by the path, e.g. by a shape split); the parts keep their symbolic characters.
func (m *Machine) symSplit(s *sym.Str, sep string) Value {
	c := m.C
	n := int(m.Concretize(s.Len, false))
	sub := func(lo, hi int) Value {
		r := &sym.Str{Len: c.L(hi - lo), Ch: append([]*sym.Term(nil), s.Ch[lo:hi]...)}
		if cs, ok := r.Concrete(); ok {
			return cs
		}
		return r
	}
	var parts Slice
	start, i := 0, 0
	for i+len(sep) <= n {
		hit := c.T
		for k := 0; k < len(sep); k++ {
			hit = c.And(hit, c.Eq(s.Ch[i+k], c.BV(8, uint64(sep[k]))))
		}
		if m.Decide(hit) {
			parts = append(parts, sub(start, i))
			i += len(sep)
			start = i
		} else {
			i++
		}
	}
	parts = append(parts, sub(start, n))
	return parts
}

func init() {
	// sets of bytes / runes (ASCII), comparison
	anyIdx := func(last bool) intrinsic {
		return func(m *Machine, fn *ssa.Function, a []Value) Value {
			s, sok := m.str(a[0])
			set, pok := m.str(a[1])
			if sok && pok {
				if last {
					return int64(strings.LastIndexAny(s, set))
				}
				return int64(strings.IndexAny(s, set))
			}
			if !pok {
				m.unsupported("strings.IndexAny with a symbolic set")
			}
			for i := 0; i < len(set); i++ {
				if set[i] >= 0x80 {
					m.unsupported("strings.IndexAny with a non-ASCII set")
				}
			}
			if last {
				return m.normScalar(m.C.Sext(m.C.LastIndexAnyOf(m.strTerm(a[0]), set), 32))
			}
			return m.normScalar(m.C.Sext(m.C.IndexAnyOf(m.strTerm(a[0]), set), 32))
		}
	}
	reg("strings.IndexAny", anyIdx(false))
	reg("strings.LastIndexAny", anyIdx(true))
	reg("strings.ContainsAny", func(m *Machine, fn *ssa.Function, a []Value) Value {
		r := anyIdx(false)(m, fn, a)
		if i, ok := r.(int64); ok {
			return i >= 0
		}
		return m.normBool(m.C.Not(m.C.Eq(r.(*sym.Term), m.C.BV(32, 0xffffffff))))
	})
	runeIdx := func(m *Machine, fn *ssa.Function, a []Value) Value {
		r, ok := a[1].(int64)
		if !ok || r < 0 || r >= 0x80 {
			m.unsupported("strings.IndexRune with a symbolic or non-ASCII rune")
		}
		if s, sok := m.str(a[0]); sok {
			return int64(strings.IndexRune(s, rune(r)))
		}
		return m.normScalar(m.C.Sext(m.C.IndexOf(m.strTerm(a[0]), string([]byte{byte(r)})), 32))
	}
	reg("strings.IndexRune", runeIdx)
	reg("strings.ContainsRune", func(m *Machine, fn *ssa.Function, a []Value) Value {
		r := runeIdx(m, fn, a)
		if i, ok := r.(int64); ok {
			return i >= 0
		}
		return m.normBool(m.C.Not(m.C.Eq(r.(*sym.Term), m.C.BV(32, 0xffffffff))))
	})
	cmp := func(m *Machine, fn *ssa.Function, a []Value) Value {
		x, xok := m.str(a[0])
		y, yok := m.str(a[1])
		if xok && yok {
			return int64(strings.Compare(x, y))
		}
		c := m.C
		xs, ys := m.strTerm(a[0]), m.strTerm(a[1])
		return m.normScalar(c.Ite(c.StrLess(xs, ys), c.BV(32, 0xffffffff), c.Ite(c.StrEq(xs, ys), c.BV(32, 0), c.BV(32, 1))))
	}
	reg("strings.Compare", cmp)
	reg("internal/bytealg.CompareString", cmp)
	reg("internal/bytealg.abigen_runtime_cmpstring", cmp)

	// unicode predicates on (possibly symbolic) ASCII runes
	type upred struct {
		name string
		f    func(rune) bool
	}
	for _, u := range []upred{{"IsUpper", unicode.IsUpper}, {"IsLower", unicode.IsLower}, {"IsLetter", unicode.IsLetter},
		{"IsDigit", unicode.IsDigit}, {"IsNumber", unicode.IsNumber}, {"IsSpace", unicode.IsSpace}, {"IsPunct", unicode.IsPunct},
		{"IsControl", unicode.IsControl}, {"IsPrint", unicode.IsPrint}, {"IsGraphic", unicode.IsGraphic}, {"IsSymbol", unicode.IsSymbol}} {
		u := u
		reg("unicode."+u.name, func(m *Machine, fn *ssa.Function, a []Value) Value {
			if r, ok := a[0].(int64); ok {
				return u.f(rune(r))
			}
			rt := a[0].(*sym.Term)
			c := m.C
			// ASCII only: the rune comes from a symbolic string (a zero-extended byte < 0x80)
			if !m.provable(c.Ult(rt, c.BV(rt.Width, 0x80))) {
				m.unsupported("unicode.%s of a symbolic rune that may be >= 0x80", u.name)
			}
			acc := c.F
			for b := 0; b < 0x80; b++ {
				if u.f(rune(b)) {
					acc = c.Or(acc, c.Eq(rt, c.BV(rt.Width, uint64(b))))
				}
			}
			return m.normBool(acc)
		})
	}
	type umap struct {
		name string
		f    func(rune) rune
	}
	for _, u := range []umap{{"ToLower", unicode.ToLower}, {"ToUpper", unicode.ToUpper}, {"ToTitle", unicode.ToTitle}} {
		u := u
		reg("unicode."+u.name, func(m *Machine, fn *ssa.Function, a []Value) Value {
			if r, ok := a[0].(int64); ok {
				return int64(u.f(rune(r)))
			}
			rt := a[0].(*sym.Term)
			c := m.C
			if !m.provable(c.Ult(rt, c.BV(rt.Width, 0x80))) {
				m.unsupported("unicode.%s of a symbolic rune that may be >= 0x80", u.name)
			}
			acc := rt
			for b := 0; b < 0x80; b++ {
				if u.f(rune(b)) != rune(b) {
					acc = c.Ite(c.Eq(rt, c.BV(rt.Width, uint64(b))), c.BV(rt.Width, uint64(u.f(rune(b)))), acc)
				}
			}
			return m.normScalar(acc)
		})
	}
}

// loggerWrite: one output operation of a log.Logger for the race analysis: the logger's
// own mutex is held around a write to its sink. Files (and the standard streams) are
// synchronised by the kernel; a bufio.Writer is plain memory.
func (m *Machine) loggerWrite(lg *Ext) {
	if m.race == nil || m.cur == nil {
		return
	}
	mu, _ := lg.F["mu"].(*Value)
	if mu == nil || !sinkIsMemory(lg.F["w"], 0) {
		return // sinks that the kernel synchronises: nothing to order
	}
	m.raceEvent(evLock, mu)
	m.sinkWrite(lg.F["w"], 0)
	m.raceEvent(evUnlock, mu)
}

func (m *Machine) sinkWrite(v Value, depth int) {
	if depth > 4 {
		return
	}
	if it, ok := v.(Iface); ok {
		v = it.V
	}
	e, ok := v.(*Ext)
	if !ok || e == nil {
		return
	}
	switch e.Kind {
	case "writer":
		if ws, ok := e.F["ws"].(Slice); ok {
			for _, w := range ws {
				m.sinkWrite(w, depth+1)
			}
		}
	case "bufwriter":
		m.logAccess(true, e, "bufio.Writer write")
	}
}

// sinkIsMemory: the sink (or a member of a MultiWriter) is an in-memory writer.
func sinkIsMemory(v Value, depth int) bool {
	if depth > 4 {
		return false
	}
	if it, ok := v.(Iface); ok {
		v = it.V
	}
	e, ok := v.(*Ext)
	if !ok || e == nil {
		return false
	}
	switch e.Kind {
	case "writer":
		if ws, ok := e.F["ws"].(Slice); ok {
			for _, w := range ws {
				if sinkIsMemory(w, depth+1) {
					return true
				}
			}
		}
	case "bufwriter":
		return true
	}
	return false
}
