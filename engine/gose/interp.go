package gose

import (
	"fmt"
	"go/constant"
	"go/token"
	"go/types"
	"strings"

	"golang.org/x/tools/go/ssa"

	"verif/engine/sym"
)

type deferred struct {
	fn   Value
	args []Value
	inv  *ssa.CallCommon
}

type frame struct {
	fn     *ssa.Function
	locals map[ssa.Value]Value
	env    []Value
	defers []deferred
	result Value
}

const modPrefix = "github.com/scipipe/scipipe"

func isScipipeFn(fn *ssa.Function) bool {
	if fn.Pkg != nil {
		return strings.HasPrefix(fn.Pkg.Pkg.Path(), modPrefix)
	}
	if fn.Parent() != nil {
		return isScipipeFn(fn.Parent())
	}
	if o := fn.Origin(); o != nil && o != fn {
		return isScipipeFn(o)
	}
	if fn.Object() != nil && fn.Object().Pkg() != nil {
		return strings.HasPrefix(fn.Object().Pkg().Path(), modPrefix)
	}
	return false
}

// packages whose source may be interpreted when no intrinsic exists
var interpOK = map[string]bool{"errors": true, "sort": true, "slices": true, "cmp": true,
	"strings": true, "path/filepath": true, "path": true, "strconv": true, "unicode": true, "unicode/utf8": true,
	"encoding/hex": true, "bytes": true, "math": true, "math/bits": true, "internal/stringslite": true, "internal/bytealg": true,
	"internal/filepathlite": true, "internal/itoa": true}

// single functions of otherwise modelled packages that are pure and may be interpreted
var interpOKFunc = map[string]bool{"os.IsPathSeparator": true,
	"(io/fs.FileMode).IsDir": true, "(io/fs.FileMode).IsRegular": true, "(io/fs.FileMode).Perm": true, "(io/fs.FileMode).Type": true,
	"(time.Duration).Hours": true, "(time.Duration).Minutes": true, "io.ReadAll": true, "io/ioutil.ReadAll": true}

func fnPkgPath(fn *ssa.Function) string {
	if fn.Pkg != nil {
		return fn.Pkg.Pkg.Path()
	}
	if fn.Parent() != nil {
		return fnPkgPath(fn.Parent())
	}
	if o := fn.Origin(); o != nil && o != fn {
		return fnPkgPath(o)
	}
	if fn.Object() != nil && fn.Object().Pkg() != nil {
		return fn.Object().Pkg().Path()
	}
	return ""
}

func (m *Machine) constValue(c *ssa.Const) Value {
	if c.Value == nil {
		return zero(c.Type())
	}
	t := c.Type().Underlying()
	if b, ok := t.(*types.Basic); ok {
		switch {
		case b.Info()&types.IsBoolean != 0:
			return constant.BoolVal(c.Value)
		case b.Info()&types.IsInteger != 0:
			if i, ok := constant.Int64Val(constant.ToInt(c.Value)); ok {
				return i
			}
			u, _ := constant.Uint64Val(constant.ToInt(c.Value))
			return int64(u)
		case b.Info()&types.IsFloat != 0:
			f, _ := constant.Float64Val(c.Value)
			return f
		case b.Info()&types.IsString != 0:
			if c.Value.Kind() == constant.String {
				return constant.StringVal(c.Value)
			}
			i, _ := constant.Int64Val(c.Value)
			return string(rune(i))
		}
	}
	// constants of type parameter / interface type etc.
	if _, ok := t.(*types.Interface); ok {
		return Iface{}
	}
	panic(fmt.Sprintf("constValue: %v : %v", c, c.Type()))
}

// sentinelErrs: package-level error variables of modelled packages.
var sentinelErrs = map[string]string{
	"os.ErrNotExist": "ENOENT", "io/fs.ErrNotExist": "ENOENT", "os.ErrExist": "EEXIST", "io/fs.ErrExist": "EEXIST",
	"os.ErrPermission": "EPERM", "io/fs.ErrPermission": "EPERM", "os.ErrClosed": "ECLOSED", "io/fs.ErrClosed": "ECLOSED",
	"os.ErrInvalid": "EINVAL", "io/fs.ErrInvalid": "EINVAL",
	"io.EOF": "EOF", "io.ErrUnexpectedEOF": "UNEXPECTEDEOF", "io.ErrShortWrite": "SHORTWRITE", "io.ErrClosedPipe": "CLOSEDPIPE",
	"os/exec.ErrNotFound": "EXECNOTFOUND",
}

func (m *Machine) globalPtr(g *ssa.Global) *Value {
	if p, ok := m.globals[g]; ok {
		return p
	}
	if g.Pkg != nil && !strings.HasPrefix(g.Pkg.Pkg.Path(), modPrefix) {
		path := g.Pkg.Pkg.Path()
		if kind, ok := sentinelErrs[path+"."+g.Name()]; ok {
			p := new(Value)
			*p = m.errVal("sentinel:"+kind, strings.ToLower(kind))
			m.globals[g] = p
			return p
		}
		if interpOK[path] && !m.initDone[g.Pkg] {
			// a package-level variable of a library whose source is interpreted: run the
			// package's initialiser (tables such as strings.asciiSpace) once per path
			m.runLibInit(g.Pkg)
			if p, ok := m.globals[g]; ok {
				return p
			}
		}
	}
	p := new(Value)
	*p = zero(g.Type().(*types.Pointer).Elem())
	m.globals[g] = p
	return p
}

func (m *Machine) get(fr *frame, v ssa.Value) Value {
	switch x := v.(type) {
	case *ssa.Const:
		return m.constValue(x)
	case *ssa.Global:
		return m.globalPtr(x)
	case *ssa.Function:
		return &Closure{Fn: x}
	case *ssa.Builtin:
		return x
	case *ssa.FreeVar:
		for i, fv := range fr.fn.FreeVars {
			if fv == x {
				return fr.env[i]
			}
		}
		panic("free var not found")
	}
	if r, ok := fr.locals[v]; ok {
		return r
	}
	panic(fmt.Sprintf("get: no value for %s (%T) in %s", v.Name(), v, fr.fn))
}

// callValue calls a function value.
func (m *Machine) callValue(fn Value, args []Value, site ssa.Instruction) Value {
	switch f := fn.(type) {
	case *Closure:
		if f == nil {
			panic(goPanic{msg: "call of nil func"})
		}
		return m.callFn(f.Fn, args, f.Env, site)
	case *ssa.Builtin:
		return m.callBuiltin(f, args, nil)
	}
	panic(fmt.Sprintf("callValue: %T", fn))
}

func (m *Machine) callFn(fn *ssa.Function, args []Value, env []Value, site ssa.Instruction) Value {
	name := fn.String()
	if strings.HasPrefix(fn.Name(), "vx") && isScipipeFn(fn) && fn.Blocks == nil {
		return m.callVx(fn, args)
	}
	if in, ok := intrinsics[name]; ok {
		if r, fb := m.tryIntrinsic(in, fn, args); !fb {
			return r
		}
		// the model does not cover these arguments: interpret the library source instead
	}
	if !isScipipeFn(fn) {
		if fn.Name() == "init" {
			return nil
		}
		// methods of modelled external types
		if r, ok := m.callExternalFallback(fn, args); ok {
			return r
		}
		if !(interpOK[fnPkgPath(fn)] || interpOKFunc[name] || (fn.Synthetic != "" && fnPkgPath(fn) == "")) || fn.Blocks == nil {
			m.unsupported("no model for external function %s", name)
		}
	}
	if fn.Blocks == nil {
		m.unsupported("function without body: %s", name)
	}
	if m.merge != nil && !isScipipeFn(fn) {
		panic(mergeAbort{"library source interpreted inside a merge scope: " + name})
	}
	if !m.NoMerge && m.cur != nil && isScipipeFn(fn) && anySym(args) && mergeable(fn) && (m.merge != nil || hasLoop(fn)) {
		if r, ok := m.mergedCall(fn, args, env); ok {
			return r
		}
	}
	return m.callBody(fn, args, env)
}

func anySym(args []Value) bool {
	for _, a := range args {
		if isSym(a) {
			return true
		}
	}
	return false
}

// callBody interprets the SSA body of fn.
func (m *Machine) callBody(fn *ssa.Function, args []Value, env []Value) Value {
	name := fn.String()
	if m.Cfg.TraceCalls {
		m.tracef("call %s", name)
	}
	m.Funcs[fn] = true
	fr := &frame{fn: fn, locals: make(map[ssa.Value]Value, 32), env: env}
	for i, p := range fn.Params {
		fr.locals[p] = args[i]
	}
	g := m.cur
	g.depth++
	if m.race != nil {
		g.stack = append(g.stack, fn)
		defer func() {
			if len(g.stack) > 0 {
				g.stack = g.stack[:len(g.stack)-1]
			}
		}()
	}
	if g.depth > 1000 {
		// unbounded recursion: natively the program dies with a stack overflow
		g.depth = 0
		panic(goPanic{msg: "fatal error: stack overflow (call depth exceeded in " + name + ")"})
	}
	m.runFrameDefers(fr, g, g.depth)
	g.depth--
	return fr.result
}

// runFrameDefers runs a frame with Go's panic semantics: when a Go panic unwinds through a
// frame that has deferred calls, they run; if one of them calls recover() the panic stops
// and the function returns through its Recover block (named results) or with zero results.
func (m *Machine) runFrameDefers(fr *frame, g *G, depth int) {
	defer func() {
		r := recover()
		if r == nil {
			return
		}
		gp, ok := r.(goPanic)
		if !ok || len(fr.defers) == 0 || m.cur != g {
			panic(r)
		}
		g.depth = depth
		savedP, savedR := g.panicking, g.recovered
		g.panicking, g.recovered = &gp, false
		m.runDefers(fr)
		rec := g.recovered
		g.panicking, g.recovered = savedP, savedR
		if !rec {
			panic(gp)
		}
		if fr.fn.Recover != nil {
			m.runFrameFrom(fr, fr.fn.Recover)
			return
		}
		res := fr.fn.Signature.Results()
		switch res.Len() {
		case 0:
			fr.result = nil
		case 1:
			fr.result = zero(res.At(0).Type())
		default:
			t := make(Tuple, res.Len())
			for i := range t {
				t[i] = zero(res.At(i).Type())
			}
			fr.result = t
		}
	}()
	m.runFrame(fr)
}

type intrinsicFallback struct{}

// tryIntrinsic runs a library model; if the model cannot handle the arguments and the
// library function is pure Go that may be interpreted, it asks for the fallback.
func (m *Machine) tryIntrinsic(in intrinsic, fn *ssa.Function, args []Value) (res Value, fallback bool) {
	prev := m.inIntrinsic
	if fn.Blocks != nil && (interpOK[fnPkgPath(fn)] || interpOKFunc[fn.String()]) {
		m.inIntrinsic = fn
	} else {
		m.inIntrinsic = nil
	}
	defer func() {
		m.inIntrinsic = prev
		if r := recover(); r != nil {
			if _, ok := r.(intrinsicFallback); ok {
				fallback = true
				return
			}
			panic(r)
		}
	}()
	return in(m, fn, args), false
}

func (m *Machine) runDefers(fr *frame) {
	for len(fr.defers) > 0 {
		d := fr.defers[len(fr.defers)-1]
		fr.defers = fr.defers[:len(fr.defers)-1]
		if d.inv != nil {
			m.invoke(d.inv, d.fn, d.args)
		} else {
			m.callValue(d.fn, d.args, nil)
		}
	}
}

func (m *Machine) runFrame(fr *frame) { m.runFrameFromPrev(fr, fr.fn.Blocks[0], nil) }

func (m *Machine) runFrameFrom(fr *frame, block *ssa.BasicBlock) { m.runFrameFromPrev(fr, block, nil) }

func (m *Machine) runFrameFromPrev(fr *frame, block *ssa.BasicBlock, prev *ssa.BasicBlock) {
	for {
		var next *ssa.BasicBlock
		if m.merge != nil && prev != nil && m.merge.inv != nil && m.merge.inv.fn == fr.fn && isLoopHeader(block) {
			if v, done := m.mergeAtLoopHeader(fr, block, prev); done {
				fr.result = v
				return
			}
		}
	instrs:
		for _, ins := range block.Instrs {
			m.steps++
			if m.steps > m.Cfg.MaxSteps {
				panic(pathAbort{"limit", fmt.Sprintf("step limit exceeded in %s", fr.fn)})
			}
			switch x := ins.(type) {
			case *ssa.DebugRef:
			case *ssa.Phi:
				for i, p := range block.Preds {
					if p == prev {
						fr.locals[x] = m.get(fr, x.Edges[i])
						break
					}
				}
			case *ssa.Jump:
				next = block.Succs[0]
				break instrs
			case *ssa.If:
				if m.DecideV(m.get(fr, x.Cond)) {
					next = block.Succs[0]
				} else {
					next = block.Succs[1]
				}
				break instrs
			case *ssa.Return:
				switch len(x.Results) {
				case 0:
				case 1:
					fr.result = m.get(fr, x.Results[0])
				default:
					t := make(Tuple, len(x.Results))
					for i, r := range x.Results {
						t[i] = m.get(fr, r)
					}
					fr.result = t
				}
				return
			case *ssa.RunDefers:
				m.runDefers(fr)
			case *ssa.Panic:
				v := m.get(fr, x.X)
				panic(goPanic{val: v, msg: fmt.Sprintf("panic: %s", m.describe(v))})
			case *ssa.Go:
				fn, args, inv := m.prepareCall(fr, &x.Call)
				if inv != nil {
					recv := fn
					m.spawn(&Closure{Fn: m.lookupMethod(recv.(Iface), inv)}, append([]Value{recv.(Iface).V}, args...), inv.Method.Name())
				} else {
					nm := "go"
					if c, ok := fn.(*Closure); ok && c != nil {
						nm = c.Fn.Name()
					}
					m.spawn(fn, args, nm)
				}
				m.maybePreempt()
			case *ssa.Defer:
				fn, args, inv := m.prepareCall(fr, &x.Call)
				fr.defers = append(fr.defers, deferred{fn, args, inv})
			case *ssa.Send:
				m.chanSend(m.get(fr, x.Chan).(*Chan), m.get(fr, x.X))
			case *ssa.Store:
				p := m.get(fr, x.Addr).(*Value)
				if p == nil {
					panic(goPanic{msg: "nil pointer dereference (store)"})
				}
				nv := m.get(fr, x.Val)
				if m.merge != nil {
					panic(mergeAbort{"store inside a merge scope"})
				}
				if m.race != nil && !sameValue(*p, nv) {
					// (go/ssa lowers `return x` of a named result x into a store of x to
					// itself, which the compiler does not emit: a store that leaves the cell
					// unchanged is not counted as a write)
					m.logAccess(true, p, "store")
				}
				*p = copyVal(nv)
			case *ssa.MapUpdate:
				mp := m.get(fr, x.Map).(*Map)
				if mp == nil {
					panic(goPanic{msg: "assignment to entry in nil map"})
				}
				if m.race != nil {
					m.logAccess(true, mp, "map assign")
				}
				m.mapSet(mp, m.get(fr, x.Key), copyVal(m.get(fr, x.Value)))
			case ssa.Value:
				fr.locals[x] = m.evalValue(fr, x)
			default:
				m.unsupported("instruction %T in %s", ins, fr.fn)
			}
		}
		prev, block = block, next
		if block == nil {
			panic(fmt.Sprintf("fell off block in %s", fr.fn))
		}
	}
}

// sameValue: identical scalar or the very same reference.
func sameValue(a, b Value) bool {
	switch x := a.(type) {
	case bool, int64, float64, string:
		return a == b
	case *Value:
		y, ok := b.(*Value)
		return ok && x == y
	case *Map:
		y, ok := b.(*Map)
		return ok && x == y
	case *Chan:
		y, ok := b.(*Chan)
		return ok && x == y
	case *Closure:
		y, ok := b.(*Closure)
		return ok && x == y
	}
	return false
}

func (m *Machine) describe(v Value) string {
	switch x := v.(type) {
	case Iface:
		if x.T == nil {
			return "nil"
		}
		if e, ok := x.V.(*Ext); ok && e != nil {
			if s, ok := e.F["msg"].(string); ok {
				return s
			}
			return e.Kind
		}
		return fmt.Sprintf("%v(%s)", x.T, m.describe(x.V))
	case string:
		return x
	case *sym.Str:
		return x.Debug()
	case *Value:
		if x == nil {
			return "nil"
		}
		return "&" + m.describe(*x)
	case Struct:
		parts := []string{}
		for _, f := range x {
			parts = append(parts, m.describe(f))
		}
		return "{" + strings.Join(parts, " ") + "}"
	}
	return fmt.Sprintf("%v", v)
}

// prepareCall evaluates callee and arguments. For invoke-mode calls it returns the
// receiver interface value as fn and the CallCommon as inv.
func (m *Machine) prepareCall(fr *frame, c *ssa.CallCommon) (fn Value, args []Value, inv *ssa.CallCommon) {
	args = make([]Value, len(c.Args))
	for i, a := range c.Args {
		args[i] = m.get(fr, a)
	}
	if c.IsInvoke() {
		return m.get(fr, c.Value), args, c
	}
	return m.get(fr, c.Value), args, nil
}

func (m *Machine) lookupMethod(recv Iface, c *ssa.CallCommon) *ssa.Function {
	if recv.T == nil {
		panic(goPanic{msg: "method call on nil interface: " + c.Method.Name()})
	}
	fn := m.Prog.LookupMethod(recv.T, c.Method.Pkg(), c.Method.Name())
	if fn == nil {
		m.unsupported("no method %s on %v", c.Method.Name(), recv.T)
	}
	return fn
}

func (m *Machine) invoke(c *ssa.CallCommon, recvV Value, args []Value) Value {
	recv := recvV.(Iface)
	if recv.T == nil {
		panic(goPanic{msg: "method call on nil interface: " + c.Method.Name()})
	}
	if e, ok := recv.V.(*Ext); ok {
		return m.extMethod(e, c.Method.Name(), args)
	}
	fn := m.lookupMethod(recv, c)
	return m.callFn(fn, append([]Value{recv.V}, args...), nil, nil)
}

func (m *Machine) evalValue(fr *frame, v ssa.Value) Value {
	switch x := v.(type) {
	case *ssa.Call:
		fn, args, inv := m.prepareCall(fr, &x.Call)
		if inv != nil {
			return m.invoke(inv, fn, args)
		}
		if b, ok := fn.(*ssa.Builtin); ok {
			return m.callBuiltin(b, args, x)
		}
		return m.callValue(fn, args, x)
	case *ssa.Alloc:
		p := new(Value)
		*p = zero(x.Type().(*types.Pointer).Elem())
		return p
	case *ssa.BinOp:
		return m.binop(x.Op, x.X.Type(), m.get(fr, x.X), m.get(fr, x.Y), x.Y.Type())
	case *ssa.UnOp:
		return m.unop(fr, x)
	case *ssa.ChangeType:
		return m.get(fr, x.X)
	case *ssa.Convert:
		r := m.convert(x.X.Type(), x.Type(), m.get(fr, x.X))
		if sb, ok := r.(*SymBytes); ok && !symBytesOnlyForModels(x) {
			// []byte(s) of a symbolic string that the code indexes, slices, ranges over or
			// hands to code without a model: a real slice of (symbolic) bytes of decided length
			n := m.decideLen(sb.S)
			sl := make(Slice, n)
			for i := 0; i < n; i++ {
				sl[i] = m.normScalar(sb.S.Ch[i])
			}
			return sl
		}
		return r
	case *ssa.ChangeInterface:
		return m.get(fr, x.X)
	case *ssa.MakeInterface:
		return Iface{T: x.X.Type(), V: m.get(fr, x.X)}
	case *ssa.MakeClosure:
		env := make([]Value, len(x.Bindings))
		for i, b := range x.Bindings {
			env[i] = m.get(fr, b)
		}
		return &Closure{Fn: x.Fn.(*ssa.Function), Env: env}
	case *ssa.MakeMap:
		return NewMap()
	case *ssa.MakeChan:
		n := m.toInt(m.get(fr, x.Size))
		m.fresh++
		return &Chan{cap: int(n), elem: x.Type().Underlying().(*types.Chan).Elem(), id: m.fresh}
	case *ssa.MakeSlice:
		n := m.toInt(m.get(fr, x.Len))
		c := m.toInt(m.get(fr, x.Cap))
		if c < n {
			c = n
		}
		s := make(Slice, n, c)
		et := x.Type().Underlying().(*types.Slice).Elem()
		for i := range s[:c] {
			s[:c][i] = zero(et)
		}
		return s
	case *ssa.FieldAddr:
		p := m.get(fr, x.X).(*Value)
		if p == nil {
			panic(goPanic{msg: fmt.Sprintf("nil pointer dereference (field %d) in %s", x.Field, fr.fn)})
		}
		st, ok := (*p).(Struct)
		if !ok {
			m.unsupported("FieldAddr on %T in %s", *p, fr.fn)
		}
		return &st[x.Field]
	case *ssa.Field:
		return copyVal(m.get(fr, x.X).(Struct)[x.Field])
	case *ssa.IndexAddr:
		base := m.get(fr, x.X)
		if it, isSymIdx := m.get(fr, x.Index).(*sym.Term); isSymIdx {
			if se := m.symTableElem(x, base, it); se != nil {
				return se
			}
		}
		if sb, isSB := base.(*SymBytes); isSB {
			base = m.matBytes(sb)
		}
		i := m.toInt(m.get(fr, x.Index))
		switch b := base.(type) {
		case Slice:
			if i < 0 || int(i) >= len(b) {
				panic(goPanic{msg: fmt.Sprintf("index out of range [%d] with length %d", i, len(b))})
			}
			return &b[i]
		case *Value:
			if b == nil {
				panic(goPanic{msg: "nil pointer dereference (index)"})
			}
			a := (*b).(Array)
			if i < 0 || int(i) >= len(a) {
				panic(goPanic{msg: fmt.Sprintf("index out of range [%d] with length %d", i, len(a))})
			}
			return &a[i]
		}
		m.unsupported("IndexAddr on %T", base)
	case *ssa.Index:
		base := m.get(fr, x.X)
		idx := m.get(fr, x.Index)
		switch b := base.(type) {
		case Array:
			i := m.toInt(idx)
			if i < 0 || int(i) >= len(b) {
				panic(goPanic{msg: "index out of range"})
			}
			return copyVal(b[i])
		case string, *sym.Str:
			return m.strIndex(b, idx)
		}
		m.unsupported("Index on %T", base)
	case *ssa.Lookup:
		base := m.get(fr, x.X)
		key := m.get(fr, x.Index)
		switch b := base.(type) {
		case *Map:
			if m.race != nil && b != nil {
				m.logAccess(false, b, "map read")
			}
			val, ok := m.mapGet(b, key)
			if !ok {
				val = zero(x.X.Type().Underlying().(*types.Map).Elem())
			}
			if x.CommaOk {
				return Tuple{copyVal(val), ok}
			}
			return copyVal(val)
		case string, *sym.Str:
			return m.strIndex(b, key)
		}
		m.unsupported("Lookup on %T", base)
	case *ssa.Slice:
		return m.sliceOp(fr, x)
	case *ssa.Extract:
		return m.get(fr, x.Tuple).(Tuple)[x.Index]
	case *ssa.TypeAssert:
		return m.typeAssert(x, m.get(fr, x.X))
	case *ssa.Range:
		return m.rangeOver(fr, x)
	case *ssa.Next:
		return m.next(x, m.get(fr, x.Iter).(*mapIter))
	case *ssa.Select:
		return m.selectInstr(fr, x)
	}
	m.unsupported("value instruction %T in %s", v, fr.fn)
	return nil
}

func (m *Machine) toInt(v Value) int64 {
	switch x := v.(type) {
	case int64:
		return x
	case *sym.Term:
		return m.Concretize(x, true)
	case nil:
		return 0
	}
	panic(fmt.Sprintf("toInt: %T", v))
}

func (m *Machine) unop(fr *frame, x *ssa.UnOp) Value {
	v := m.get(fr, x.X)
	switch x.Op {
	case token.MUL:
		if se, ok := v.(*symElem); ok {
			return m.symTableLoad(se)
		}
		p := v.(*Value)
		if p == nil {
			panic(goPanic{msg: fmt.Sprintf("nil pointer dereference in %s", fr.fn)})
		}
		if m.race != nil {
			m.logAccess(false, p, "load")
		}
		return copyVal(*p)
	case token.ARROW:
		val, ok := m.chanRecv(v.(*Chan))
		if x.CommaOk {
			return Tuple{val, ok}
		}
		return val
	case token.NOT:
		switch b := v.(type) {
		case bool:
			return !b
		case *sym.Term:
			return m.C.Not(b)
		}
	case token.SUB:
		switch b := v.(type) {
		case int64:
			return m.wrap(-b, x.Type())
		case float64:
			return -b
		case *sym.Term:
			return m.C.Sub(m.C.BV(b.Width, 0), b)
		}
	case token.XOR:
		switch b := v.(type) {
		case int64:
			return m.wrap(^b, x.Type())
		case *sym.Term:
			return m.C.BvXor(b, m.C.BV(b.Width, ^uint64(0)))
		}
	}
	m.unsupported("unop %v on %T", x.Op, v)
	return nil
}

// wrap truncates a concrete integer result to the real width of t.
func (m *Machine) wrap(v int64, t types.Type) int64 {
	bits := realBits(t)
	_, signed, _ := isInteger(t)
	switch bits {
	case 8:
		if signed {
			return int64(int8(v))
		}
		return int64(uint8(v))
	case 16:
		if signed {
			return int64(int16(v))
		}
		return int64(uint16(v))
	case 32:
		if signed {
			return int64(int32(v))
		}
		return int64(uint32(v))
	}
	return v
}

func (m *Machine) typeAssert(x *ssa.TypeAssert, v Value) Value {
	itf := v.(Iface)
	ok := false
	var res Value
	if itf.T != nil {
		if at, isI := x.AssertedType.Underlying().(*types.Interface); isI {
			if _, isExt := itf.V.(*Ext); isExt {
				ok = true // modelled objects satisfy the interfaces they are used through
			} else {
				ok = types.Implements(itf.T, at)
			}
			res = itf
		} else {
			ok = types.Identical(itf.T, x.AssertedType)
			res = itf.V
		}
	}
	if x.CommaOk {
		if !ok {
			res = zero(x.AssertedType)
		}
		return Tuple{res, ok}
	}
	if !ok {
		panic(goPanic{msg: fmt.Sprintf("interface conversion: %v is not %v", itf.T, x.AssertedType)})
	}
	return res
}

func (m *Machine) selectInstr(fr *frame, x *ssa.Select) Value {
	cases := make([]selCase, len(x.States))
	for i, st := range x.States {
		ch, _ := m.get(fr, st.Chan).(*Chan)
		cases[i] = selCase{ch: ch, send: st.Dir == types.SendOnly}
		if st.Send != nil {
			cases[i].val = m.get(fr, st.Send)
		}
	}
	idx, val, ok := m.doSelect(cases, x.Blocking)
	res := Tuple{int64(idx), ok}
	for i, st := range x.States {
		if st.Dir == types.RecvOnly {
			if i == idx {
				res = append(res, val)
			} else {
				res = append(res, zero(st.Chan.Type().Underlying().(*types.Chan).Elem()))
			}
		}
	}
	return res
}

func (m *Machine) callBuiltin(b *ssa.Builtin, args []Value, site *ssa.Call) Value {
	switch b.Name() {
	case "len":
		switch x := args[0].(type) {
		case string:
			return int64(len(x))
		case *sym.Str:
			if x.Len.IsConst() {
				return int64(x.Len.Val)
			}
			return m.C.Zext(x.Len, 32)
		case Slice:
			return int64(len(x))
		case Array:
			return int64(len(x))
		case *Map:
			if m.race != nil && x != nil {
				m.logAccess(false, x, "map len")
			}
			return int64(x.Len())
		case *Chan:
			if x == nil {
				return int64(0)
			}
			return int64(len(x.buf))
		case *SymBytes:
			return m.C.Zext(x.S.Len, 32)
		case *JSONBlob:
			return jsonLen(x)
		case *Value:
			return int64(len((*x).(Array)))
		}
	case "cap":
		switch x := args[0].(type) {
		case Slice:
			return int64(cap(x))
		case *Chan:
			if x == nil {
				return int64(0)
			}
			return int64(x.cap)
		case Array:
			return int64(len(x))
		}
	case "append":
		if args[1] == nil {
			return args[0]
		}
		switch y := args[1].(type) {
		case Slice:
			if len(y) == 0 {
				return args[0]
			}
			s, ok := args[0].(Slice)
			if !ok && !isNilValue(args[0]) {
				m.unsupported("append to %T", args[0])
			}
			cp := make(Slice, len(y))
			for i, e := range y {
				cp[i] = copyVal(e)
			}
			return append(s, cp...)
		case string:
			s, _ := args[0].(Slice)
			for i := 0; i < len(y); i++ {
				s = append(s, int64(y[i]))
			}
			return s
		case *sym.Str, *SymBytes:
			// append([]byte, symbolic string...): the length is decided, the bytes stay symbolic
			var str *sym.Str
			if sb, ok := y.(*SymBytes); ok {
				str = sb.S
			} else {
				str = y.(*sym.Str)
			}
			s, ok := args[0].(Slice)
			if !ok && !isNilValue(args[0]) {
				if sb0, isSB := args[0].(*SymBytes); isSB {
					return &SymBytes{S: m.C.Concat(sb0.S, str)}
				}
				m.unsupported("append to %T", args[0])
			}
			n := int(m.Concretize(str.Len, false))
			for i := 0; i < n; i++ {
				s = append(s, m.normScalar(str.Ch[i]))
			}
			return s
		}
	case "copy":
		dst := args[0].(Slice)
		switch src := args[1].(type) {
		case Slice:
			n := copy(dst, src)
			return int64(n)
		case string:
			n := 0
			for n < len(dst) && n < len(src) {
				dst[n] = int64(src[n])
				n++
			}
			return int64(n)
		case *sym.Str:
			ln := int(m.Concretize(m.C.Zext(src.Len, 32), false))
			n := 0
			for n < len(dst) && n < ln {
				if src.Ch[n].IsConst() {
					dst[n] = int64(src.Ch[n].Val)
				} else {
					dst[n] = src.Ch[n]
				}
				n++
			}
			return int64(n)
		case *SymBytes:
			ln := int(m.Concretize(m.C.Zext(src.S.Len, 32), false))
			n := 0
			for n < len(dst) && n < ln {
				dst[n] = src.S.Ch[n]
				n++
			}
			return int64(n)
		}
	case "close":
		m.chanClose(args[0].(*Chan))
		return nil
	case "delete":
		mp := args[0].(*Map)
		if mp != nil {
			if m.race != nil {
				m.logAccess(true, mp, "map delete")
			}
			m.mapDelete(mp, args[1])
		}
		return nil
	case "print", "println":
		return nil
	case "recover":
		if g := m.cur; g != nil && g.panicking != nil {
			gp := g.panicking
			g.panicking, g.recovered = nil, true
			if gp.val != nil {
				return gp.val
			}
			return m.errVal("runtime", gp.msg)
		}
		return Iface{}
	case "min", "max":
		if a, ok := args[0].(int64); ok {
			r := a
			for _, o := range args[1:] {
				ov := o.(int64)
				if (b.Name() == "min" && ov < r) || (b.Name() == "max" && ov > r) {
					r = ov
				}
			}
			return r
		}
	}
	m.unsupported("builtin %s on %T", b.Name(), args[0])
	return nil
}

// ---------------------------------------------------------------- maps

func (m *Machine) keyEq(a, b Value) Value {
	return m.eqValue(a, b)
}

func (m *Machine) mapFind(mp *Map, key Value) int {
	if hk, ok := hashable(key); ok && mp.nsym == 0 {
		if i, ok := mp.index[hk]; ok {
			return i
		}
		return -1
	}
	hk, khash := hashable(key)
	for i, k := range mp.keys {
		if khash {
			if hk2, ok := hashable(k); ok {
				if hk == hk2 {
					return i
				}
				continue
			}
		}
		if m.DecideV(m.keyEq(k, key)) {
			return i
		}
	}
	return -1
}

func (m *Machine) mapGet(mp *Map, key Value) (Value, bool) {
	if mp == nil {
		return nil, false
	}
	i := m.mapFind(mp, key)
	if i < 0 {
		return nil, false
	}
	return mp.vals[i], true
}

func (m *Machine) mapSet(mp *Map, key, val Value) {
	key = m.normScalar(key)
	i := m.mapFind(mp, key)
	if i >= 0 {
		mp.vals[i] = val
		return
	}
	mp.keys = append(mp.keys, key)
	mp.vals = append(mp.vals, val)
	if hk, ok := hashable(key); ok {
		mp.index[hk] = len(mp.keys) - 1
	} else {
		mp.nsym++
	}
}

func (m *Machine) mapDelete(mp *Map, key Value) {
	i := m.mapFind(mp, key)
	if i < 0 {
		return
	}
	if _, ok := hashable(mp.keys[i]); !ok {
		mp.nsym--
	}
	mp.keys = append(mp.keys[:i], mp.keys[i+1:]...)
	mp.vals = append(mp.vals[:i], mp.vals[i+1:]...)
	mp.index = map[interface{}]int{}
	for j, k := range mp.keys {
		if hk, ok := hashable(k); ok {
			mp.index[hk] = j
		}
	}
}

// normScalar turns fully concrete symbolic strings back into Go strings.
func (m *Machine) normScalar(v Value) Value {
	if s, ok := v.(*sym.Str); ok {
		if g, ok := s.Concrete(); ok {
			return g
		}
	}
	return v
}

func (m *Machine) rangeOver(fr *frame, x *ssa.Range) Value {
	v := m.get(fr, x.X)
	switch b := v.(type) {
	case *Map:
		it := &mapIter{m: b}
		if m.race != nil && b != nil {
			m.logAccess(false, b, "map range")
		}
		if b != nil {
			n := len(b.keys)
			order := make([]int, n)
			for i := range order {
				order[i] = i
			}
			fnName := fr.fn.Name()
			if n > 1 && (m.mapOrderSym[fnName] || m.mapOrderSym["*"]) {
				// symbolic permutation: choose each next element among the remaining
				rem := append([]int(nil), order...)
				order = order[:0]
				for len(rem) > 0 {
					k := m.Choose("maporder."+fnName, len(rem))
					order = append(order, rem[k])
					rem = append(rem[:k], rem[k+1:]...)
				}
			} else if m.mapOrderRev {
				for i, j := 0, n-1; i < j; i, j = i+1, j-1 {
					order[i], order[j] = order[j], order[i]
				}
			}
			for _, i := range order {
				it.keys = append(it.keys, b.keys[i])
				it.vals = append(it.vals, b.vals[i])
			}
		}
		return it
	case string:
		return &mapIter{str: b}
	case *sym.Str:
		// symbolic strings are ASCII: the length is decided, the runes stay symbolic
		n := m.decideLen(b)
		return &mapIter{str: b, symN: n}
	}
	m.unsupported("range over %T", v)
	return nil
}

func (m *Machine) next(x *ssa.Next, it *mapIter) Value {
	if x.IsString {
		if ss, ok := it.str.(*sym.Str); ok {
			if it.i >= it.symN {
				return Tuple{false, int64(0), int64(0)}
			}
			idx := it.i
			it.i++
			return Tuple{true, int64(idx), m.normScalar(m.C.Zext(ss.Ch[idx], 32))}
		}
		s := it.str.(string)
		if it.i >= len(s) {
			return Tuple{false, int64(0), int64(0)}
		}
		for i, r := range s[it.i:] {
			_ = i
			idx := it.i
			it.i += len(string(r))
			return Tuple{true, int64(idx), int64(r)}
		}
	}
	for it.i < len(it.keys) {
		k, v := it.keys[it.i], it.vals[it.i]
		it.i++
		// skip entries deleted during iteration
		if it.m != nil {
			if cur, ok := m.mapGetNoFork(it.m, k); ok {
				return Tuple{true, k, copyVal(cur)}
			}
			_ = v
			continue
		}
	}
	return Tuple{false, nil, nil}
}

// mapGetNoFork looks up by identity of the stored key (used by iteration).
func (m *Machine) mapGetNoFork(mp *Map, key Value) (Value, bool) {
	if hk, ok := hashable(key); ok {
		if i, ok := mp.index[hk]; ok {
			return mp.vals[i], true
		}
		return nil, false
	}
	for i, k := range mp.keys {
		if ks, ok := k.(*sym.Str); ok {
			if ks2, ok := key.(*sym.Str); ok && ks == ks2 {
				return mp.vals[i], true
			}
		}
		if kt, ok := k.(*sym.Term); ok {
			if kt2, ok := key.(*sym.Term); ok && kt == kt2 {
				return mp.vals[i], true
			}
		}
		if st, ok := k.(Struct); ok {
			if st2, ok := key.(Struct); ok && &st[0] == &st2[0] {
				return mp.vals[i], true
			}
		}
	}
	return nil, false
}

// runLibInit interprets the synthetic init function of an allow-listed pure library
// package (initialisers of its package-level variables). Nested inits of imported packages
// are not run from here (they run on demand when one of their variables is read).
func (m *Machine) runLibInit(pkg *ssa.Package) {
	if m.initDone == nil {
		m.initDone = map[*ssa.Package]bool{}
	}
	m.initDone[pkg] = true
	initf := pkg.Func("init")
	if initf == nil || initf.Blocks == nil {
		return
	}
	savedMerge, savedRace, savedIn := m.merge, m.race, m.inIntrinsic
	m.merge, m.race, m.inIntrinsic = nil, nil, nil
	defer func() { m.merge, m.race, m.inIntrinsic = savedMerge, savedRace, savedIn }()
	m.callBody(initf, nil, nil)
}

// symElem is the address of an element of a table of concrete scalars selected by a
// symbolic index; it can only be loaded from (the load builds an if-then-else over the
// possible entries instead of forking over the index values).
type symElem struct {
	elems []Value
	idx   *sym.Term
	et    types.Type
}

func (m *Machine) symTableElem(x *ssa.IndexAddr, base Value, idx *sym.Term) *symElem {
	if refs := x.Referrers(); refs != nil {
		for _, r := range *refs {
			u, ok := r.(*ssa.UnOp)
			if !ok || u.Op != token.MUL {
				if _, dbg := r.(*ssa.DebugRef); !dbg {
					return nil
				}
			}
		}
	} else {
		return nil
	}
	var elems []Value
	switch b := base.(type) {
	case Slice:
		elems = b
	case *Value:
		if b == nil {
			return nil
		}
		a, ok := (*b).(Array)
		if !ok {
			return nil
		}
		elems = a
	default:
		return nil
	}
	if len(elems) == 0 || len(elems) > 512 {
		return nil
	}
	et := x.Type().(*types.Pointer).Elem()
	if _, _, ok := isInteger(et); !ok && !isBool(et) {
		return nil
	}
	for _, e := range elems {
		switch e.(type) {
		case int64, bool:
		default:
			return nil
		}
	}
	// bounds: out of range is a panic on its own path
	c := m.C
	in := c.T
	if idx.Width >= 63 || uint64(len(elems)) < uint64(1)<<uint(idx.Width) {
		in = c.Ult(idx, c.BV(idx.Width, uint64(len(elems))))
	}
	if !m.Decide(in) {
		panic(goPanic{msg: fmt.Sprintf("index out of range [symbolic] with length %d", len(elems))})
	}
	return &symElem{elems: elems, idx: idx, et: et}
}

func (m *Machine) symTableLoad(se *symElem) Value {
	c := m.C
	var acc *sym.Term
	lift := func(v Value) *sym.Term {
		if isBool(se.et) {
			return m.boolTerm(v)
		}
		return m.intTerm(v, se.et)
	}
	for i := len(se.elems) - 1; i >= 0; i-- {
		hit := c.Eq(se.idx, c.BV(se.idx.Width, uint64(i)))
		if hit.IsFalse() {
			continue
		}
		if acc == nil {
			acc = lift(se.elems[i])
			continue
		}
		acc = c.Ite(hit, lift(se.elems[i]), acc)
	}
	if acc == nil {
		acc = lift(se.elems[0])
	}
	if isBool(se.et) {
		return m.normBool(acc)
	}
	return m.normScalar(acc)
}

// symBytesOnlyForModels: every use of the converted value is an argument of a call to a
// modelled library function, a conversion back to string, or len.
func symBytesOnlyForModels(x *ssa.Convert) bool {
	refs := x.Referrers()
	if refs == nil {
		return true
	}
	for _, r := range *refs {
		switch u := r.(type) {
		case *ssa.DebugRef, *ssa.Convert:
		case *ssa.Call:
			switch c := u.Call.Value.(type) {
			case *ssa.Builtin:
				if c.Name() != "len" {
					return false
				}
			case *ssa.Function:
				if _, ok := intrinsics[c.String()]; !ok {
					return false
				}
			default:
				return false
			}
		default:
			return false
		}
	}
	return true
}

// matBytes: the bytes of a symbolic string as a real slice (decided length, symbolic
// elements), built once per SymBytes value.
func (m *Machine) matBytes(sb *SymBytes) Slice {
	if sb.mat != nil {
		return sb.mat
	}
	n := m.decideLen(sb.S)
	sl := make(Slice, n)
	for i := 0; i < n; i++ {
		sl[i] = m.normScalar(sb.S.Ch[i])
	}
	sb.mat = sl
	return sl
}

// jsonLen: the "length" of a marshalled-JSON snapshot: a function of the snapshot's
// structure (equal content gives equal length).
func jsonLen(b *JSONBlob) int64 {
	n := int64(100)
	seen := map[interface{}]bool{}
	var rec func(v Value, d int)
	rec = func(v Value, d int) {
		if d > 40 {
			return
		}
		switch x := v.(type) {
		case *Value:
			if x == nil || seen[x] {
				return
			}
			seen[x] = true
			rec(*x, d+1)
		case Struct:
			for _, f := range x {
				rec(f, d+1)
			}
		case Slice:
			n += 2
			for _, f := range x {
				rec(f, d+1)
			}
		case Array:
			for _, f := range x {
				rec(f, d+1)
			}
		case *Map:
			if x != nil {
				n += 2
				for i := range x.keys {
					rec(x.keys[i], d+1)
					rec(x.vals[i], d+1)
				}
			}
		case string:
			n += int64(len(x)) + 2
		case nil:
		default:
			n += 3
		}
	}
	rec(b.Snap, 0)
	return n
}
