#!/usr/bin/env python3
"""try_patch.py <worktree> <patch.diff> [check ...]: apply a patch to a scratch worktree of /repo,
run the given (default: all) quick checks with bin/verif-dev against it, revert; print a summary line."""
import subprocess, sys, os, json, time
wt, patch = sys.argv[1], sys.argv[2]
checks = sys.argv[3:] or ['C%02d'%i for i in range(1,21)]
def sh(cmd, cwd=None, timeout=3600):
    try:
        r=subprocess.run(cmd, shell=True, cwd=cwd, capture_output=True, text=True, timeout=timeout)
        return r.returncode, r.stdout+r.stderr
    except subprocess.TimeoutExpired:
        return 124, 'TIMEOUT'
sh('git checkout -- . && git clean -fdq', wt)
rc,o=sh('git apply %s || (git apply --3way %s && git reset -q)'%(patch,patch), wt)
if rc!=0:
    print('PATCH-FAIL', patch, o[-200:]); sys.exit(3)
res={}
for c in checks:
    t=time.time()
    rc,o=sh('VERIF_REPO=%s ./bin/verif-dev check %s --tier quick'%(wt,c), '/verif', 2400)
    lines=[l[:220] for l in o.splitlines() if l.startswith(('VIOLATION','INCONCLUSIVE'))]
    res[c]={'exit':rc,'s':round(time.time()-t),'lines':lines[:3]}
sh('git checkout -- . && git clean -fdq', wt)
bad={c:v for c,v in res.items() if v['exit']!=0}
print(json.dumps({'patch':patch,'nonzero':bad,'ok':[c for c,v in res.items() if v['exit']==0]}))
