#!/bin/bash
# Runs every registered quick check against /repo (regenerates /verif/evidence/*.json) and validates the evidence.
cd /verif || exit 2
rc=0
for c in C01 C02 C03 C04 C05 C06 C07 C08 C09 C10 C11 C12 C13 C14 C15 C16 C17 C18 C19 C20; do
  s=$(date +%s)
  ./bin/verif check $c --tier quick > /tmp/quick_$c.log 2>&1; e=$?
  echo "$c exit=$e $(( $(date +%s)-s ))s known=$(grep -c '^KNOWN-FINDING' /tmp/quick_$c.log) viol=$(grep -c '^VIOLATION' /tmp/quick_$c.log)"
  [ $e -ne 0 ] && rc=1 && grep -v "^KNOWN" /tmp/quick_$c.log | head -5 | cut -c1-300
done
python3-vt - <<'PY'
import json,jsonschema,glob
sch=json.load(open('/root/.vp/EVIDENCE.schema.json'))
bad=0
for f in sorted(glob.glob('/verif/evidence/*.json')):
    try: jsonschema.validate(json.load(open(f)),sch)
    except Exception as e: print(f,'INVALID',str(e)[:200]); bad+=1
print('evidence files valid' if not bad else 'INVALID evidence')
PY
exit $rc
