#!/bin/bash
# Runs every registered thorough check against /repo (rewrites /verif/evidence/*.json with thorough-tier evidence).
cd /verif || exit 2
rc=0
for c in ${@:-C01 C02 C03 C04 C05 C06 C07 C08 C09 C10 C11 C12 C13 C14 C15 C16 C17 C18 C19 C20}; do
  s=$(date +%s)
  timeout 7200 ./bin/verif check $c --tier thorough > /tmp/thorough_$c.log 2>&1; e=$?
  echo "$c exit=$e $(( $(date +%s)-s ))s known=$(grep -c '^KNOWN-FINDING' /tmp/thorough_$c.log) viol=$(grep -c '^VIOLATION' /tmp/thorough_$c.log)"
  [ $e -ne 0 ] && rc=1 && grep -v "^KNOWN" /tmp/thorough_$c.log | head -5 | cut -c1-300
done
exit $rc
