#!/bin/bash
# usage: tools/seedtest.sh <property> <patch.diff> [tier]   -- applies a seeded change to /repo, runs the check, reverts
set -u
P=$1; PATCH=$2; TIER=${3:-quick}
cd /repo || exit 3
if ! git diff --quiet; then echo "/repo has uncommitted changes"; exit 3; fi
git apply "$PATCH" || { echo "patch does not apply"; exit 3; }
( cd /verif && timeout 3600 ./bin/verif check "$P" --tier "$TIER" ) ; rc=$?
git -C /repo checkout -- . 
echo "seedtest: property=$P patch=$PATCH tier=$TIER exit=$rc"
exit $rc
