#!/usr/bin/env python3
"""Confirm sub-agent mutations in their scratch worktrees and record them under /verif/seeded/.
Environment: WT_ROOT (default /tmp/wt) = where the sub-agents' worktrees are, SEED_TAG (default "")
= inserted before the mutation name in the directory name (round 2: SEED_TAG=r2 gives C01-r2m1).
For each $WT_ROOT/<P>/_mut/<m>: demo passes on HEAD, patch applies, builds, the 60 stable tests
still pass, demo fails with the patch; then the registered check(s) are run against /repo with
the patch applied (and reverted). Usage: confirm_seeded.py [P ...]"""
import json, os, subprocess, sys, shutil, glob
ENV=dict(os.environ, GOFLAGS='-mod=mod', GOPROXY='off', GOSUMDB='off', GOTOOLCHAIN='local')
STABLE=set(json.load(open('/root/.vp/BASELINE.json'))['stable_pass'])
def sh(cmd, cwd, timeout=900):
    try:
        r=subprocess.run(cmd, shell=True, cwd=cwd, env=ENV, capture_output=True, text=True, timeout=timeout)
        return r.returncode, r.stdout+r.stderr
    except subprocess.TimeoutExpired as e:
        return 124, 'TIMEOUT'
def suite_ok(wt):
    rc,out=sh('go test -json -vet=off -count=1 -timeout 20m ./... 2>/dev/null', wt)
    res={}
    for l in out.splitlines():
        try: e=json.loads(l)
        except: continue
        if e.get('Test') and e.get('Action') in ('pass','fail'):
            res[e['Package']+'::'+e['Test']]=e['Action']
    missing=[k for k in STABLE if res.get(k)!='pass']
    sh('git clean -fdxq -e _mut', wt)
    return len(missing)==0, missing
# which checks to run for a mutant of property P (own property first)
EXTRA={'C01':['C14','C09'],'C05':['C07'],'C09':['C01'],'C10':['C11'],'C11':['C10']}
WT_ROOT=os.environ.get('WT_ROOT','/tmp/wt'); TAG=os.environ.get('SEED_TAG','')
if TAG=='r3':
    EXTRA={'C01':['C03','C09'],'C02':['C04'],'C03':['C08','C01'],'C04':['C06','C07','C05'],'C05':['C04','C16'],'C09':['C05','C04'],
           'C11':['C08','C10'],'C16':['C04','C05'],'C18':['C10'],'C20':['C10','C11']}
if TAG=='r2':
    EXTRA={'C01':['C14','C09'],'C02':['C15','C07'],'C03':['C11'],'C04':['C19','C08'],'C05':['C19','C16'],'C09':['C01','C15'],
           'C11':['C10','C12'],'C13':['C14'],'C15':['C18'],'C16':['C05'],'C19':['C05'],'C20':['C10','C11']}
def main():
    props=sys.argv[1:] or sorted(os.path.basename(p) for p in glob.glob(WT_ROOT+'/C??') if os.path.isdir(p))
    for P in props:
        wt=WT_ROOT+'/'+P
        for mdir in sorted(glob.glob(wt+'/_mut/m?')):
            m=os.path.basename(mdir)
            dst='/verif/seeded/%s-%s%s'%(P,TAG,m)
            meta={'property':P,'mutation':TAG+m,'round':{'r2':2,'r3':3}.get(TAG,1)}
            try: meta['notes']=json.load(open(mdir+'/notes.json'))
            except Exception as e: meta['notes']={'error':str(e)}
            sh('git checkout -- . && git clean -fdxq -e _mut', wt)
            patch=mdir+'/patch.diff'
            rc0,o0=sh('sh _mut/%s/run.sh'%m, wt)
            meta['demo_on_unchanged_tree_exit']=rc0
            rc,o=sh('git apply %s'%patch, wt)
            rebased=False
            if rc!=0:
                rc,o=sh('git apply --3way %s && git reset -q'%patch, wt)
                rebased=True
            meta['patch_applies']=(rc==0); meta['patch_rebased_on_fix_commits']=rebased
            if rc!=0:
                meta['error']='patch does not apply: '+o[-300:]
            else:
                rc,diff=sh('git diff', wt)
                rcb,ob=sh('go build ./...', wt)
                meta['builds']=(rcb==0)
                rc1,o1=sh('sh _mut/%s/run.sh'%m, wt)
                meta['demo_with_patch_exit']=rc1
                meta['demo_with_patch_tail']=o1[-400:]
                ok,missing=suite_ok(wt)
                meta['suite_60_stable_pass']=ok; meta['suite_missing']=missing
                sh('git checkout -- . && git clean -fdxq -e _mut', wt)
                os.makedirs(dst, exist_ok=True)
                open(dst+'/patch.diff','w').write(diff)
                for f in glob.glob(mdir+'/*'):
                    if os.path.basename(f) not in ('patch.diff',):
                        shutil.copy(f, dst)
                # run checks against /repo
                meta['checks']={}
                for C in [P]+EXTRA.get(P,[]):
                    if not os.path.exists('/verif/bin/verif'): break
                    rcA,oA=sh('git apply %s/patch.diff'%dst, '/repo')
                    if rcA!=0:
                        meta['checks'][C]={'error':'patch does not apply to /repo'}
                        continue
                    rcC,oC=sh('./bin/verif check %s --tier quick'%C, '/verif', timeout=1800)
                    sh('git checkout -- .', '/repo')
                    viol=[l for l in oC.splitlines() if l.startswith('VIOLATION')]
                    meta['checks'][C]={'exit':rcC,'violation_lines':viol[:3],'inconclusive':[l[:200] for l in oC.splitlines() if l.startswith('INCONCLUSIVE')][:2]}
                meta['confirmed']=bool(meta['builds'] and ok and rc0==0 and rc1!=0)
                meta['detected_by']=[C for C,v in meta['checks'].items() if v.get('exit')==1]
                meta['what_was_run']='in a scratch worktree at /repo HEAD: run.sh (demo) without and with the patch, go build ./..., go test -json ./... compared with the 60 stable tests of BASELINE.json; then `verif check <ID> --tier quick` in /verif with the patch applied to /repo and reverted'
            os.makedirs(dst, exist_ok=True)
            json.dump(meta, open(dst+'/meta.json','w'), indent=1)
            print(P,m,'confirmed=',meta.get('confirmed'),'detected_by=',meta.get('detected_by'),'demo',meta.get('demo_on_unchanged_tree_exit'),meta.get('demo_with_patch_exit'),'suite',meta.get('suite_60_stable_pass'), flush=True)
main()
