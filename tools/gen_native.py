#!/usr/bin/env python3
"""Generate harness/<pkg>/zz_verif_vx_native.go (native bodies of the vx vocabulary, used for
replaying solver models against the natively compiled real code) from zz_verif_vx.go."""
import re, sys, os
native_impl={
'vxStr':'return vxPlanStr(name)',
'vxInt':'return vxPlanInt(name)',
'vxInt64':'return int64(vxPlanInt(name))',
'vxBool':'return vxPlanInt(name) != 0',
'vxTime':'if v := vxPlanInt(name); v != 0 { return time.Unix(0, int64(v)) }; return time.Time{}',
'vxChoice':'return vxPlanChoice(name)',
'vxConcrete':'return v',
'vxConcreteBool':'return b',
'vxConcreteStr':'return s',
'vxShape':'return s',
'vxAssume':'if !c { fmt.Println("VXASSUME-FAILED"); os.Exit(3) }',
'vxAssert':'if !c { fmt.Println("VXFAIL " + id); vxFailed = true } else { fmt.Println("VXOK " + id) }',
'vxKnown':'if !c { fmt.Println("VXKNOWN " + id) } else { fmt.Println("VXOK " + id) }',
'vxReach':'fmt.Println("VXREACH " + id)',
'vxNote':'fmt.Println("VXNOTE " + s)',
'vxEmit':'fmt.Println("VXOUT " + s)',
'vxListing':'var out []string; filepath.Walk(".", func(p string, fi os.FileInfo, err error) error { if p != "." { out = append(out, p) }; return nil }); return out',
'vxNVFile':'os.WriteFile(path, []byte("data\\n"), 0644)',
'vxNVLines':'os.WriteFile(path, []byte(strings.Join(lines, "\\n")+"\\n"), 0644)',
'vxFileLines':'b, err := os.ReadFile(path); if err != nil { return nil }; t := strings.TrimSuffix(string(b), "\\n"); if t == "" { return nil }; return strings.Split(t, "\\n")',
'vxOr':'return a || b','vxAnd':'return a && b','vxNot':'return !a','vxImplies':'return !a || b',
'vxIte':'if c { return a }; return b',
'vxCleanPath':'return s != "" && filepath.Clean(s) == s',
'vxContains':'return strings.Contains(s, sub)','vxHasPrefix':'return strings.HasPrefix(s, p)','vxHasSuffix':'return strings.HasSuffix(s, p)',
'vxIsSym':'return false',
'vxRun':'kind := "returned"; func() { defer func() { if r := recover(); r != nil { kind = "panic" } }(); f() }(); return kind',
'vxRunCode':'return 0',
'vxRunMsg':'return ""',
'vxGet':'return vxPlanInt("param." + k)',
'vxSet':'',
'vxTraceMode':'','vxTraceStatFork':'','vxMapOrder':'','vxMapOrderOff':'','vxMapOrderReverse':'','vxPreemptBudget':'','vxPreemptAtFS':'','vxKillAt':'','vxKillAtDesc':'','vxYield':'','vxClockSymbolic':'','vxCmdFree':'','vxSetEnv':'os.Setenv(k, v)',
}
def gen(pkgdir, pkgname):
    decl=open(os.path.join(pkgdir,'zz_verif_vx.go')).read()
    funcs=re.findall(r'^func (vx\w+)\((.*?)\)(.*)$',decl,re.M)
    out=['// Code generated from zz_verif_vx.go by tools/gen_native.py; native bodies for replay. DO NOT EDIT.','package '+pkgname,'','import (','\t"encoding/json"','\t"fmt"','\t"os"','\t"path/filepath"','\t"strings"','\t"time"',')','']
    out.append(re.search(r'const \(\n\tvxClassAny.*?\n\)\n\nconst \(.*?\n\)\n',decl,re.S).group(0))
    out.append('''var vxPlan map[string]interface{}
var vxChoiceN int
var vxFailed bool

func vxLoadPlan() {
	if vxPlan != nil {
		return
	}
	vxPlan = map[string]interface{}{}
	b, err := os.ReadFile(os.Getenv("VX_PLAN"))
	if err != nil {
		fmt.Println("VXPLAN-MISSING", err)
		os.Exit(4)
	}
	if err := json.Unmarshal(b, &vxPlan); err != nil {
		fmt.Println("VXPLAN-BAD", err)
		os.Exit(4)
	}
}

func vxPlanStr(name string) string {
	vxLoadPlan()
	s, _ := vxPlan[name].(string)
	return s
}

func vxPlanInt(name string) int {
	vxLoadPlan()
	switch x := vxPlan[name].(type) {
	case float64:
		return int(x)
	case bool:
		if x {
			return 1
		}
	}
	return 0
}

// choices are recorded by the engine as name#<n> with a global counter; natively the
// next key with this name prefix in counter order is used
func vxPlanChoice(name string) int {
	vxLoadPlan()
	for i := vxChoiceN + 1; i < vxChoiceN+10000; i++ {
		k := fmt.Sprintf("%s#%d", name, i)
		if v, ok := vxPlan[k]; ok {
			vxChoiceN = i
			f, _ := v.(float64)
			return int(f)
		}
	}
	fmt.Println("VXPLAN-NOCHOICE", name)
	os.Exit(4)
	return 0
}

// vxReplayDone is called by the generated replay test after the harness returned.
func vxReplayDone() {
	if vxFailed {
		fmt.Println("VXRESULT FAIL")
		os.Exit(1)
	}
	fmt.Println("VXRESULT PASS")
}

var _ = filepath.Clean
var _ = strings.Contains
''')
    for name,params,ret in funcs:
        body=native_impl.get(name)
        if body is None:
            body='panic("'+name+': environment-model function, not available in native replay")'
        out.append('func %s(%s)%s {\n\t%s\n}\n'%(name,params,ret.rstrip(),body))
    open(os.path.join(pkgdir,'zz_verif_vx_native.go'),'w').write('\n'.join(out))

if __name__=='__main__':
    base=os.path.join(os.path.dirname(os.path.abspath(__file__)),'..','harness')
    src=open(os.path.join(base,'scipipe','zz_verif_vx.go')).read()
    for d,pk in (('components','components'),('cmd_scipipe','main')):
        os.makedirs(os.path.join(base,d),exist_ok=True)
        open(os.path.join(base,d,'zz_verif_vx.go'),'w').write(src.replace('package scipipe','package '+pk,1))
    for d,pk in (('scipipe','scipipe'),('components','components'),('cmd_scipipe','main')):
        gen(os.path.join(base,d),pk)
