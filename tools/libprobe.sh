#!/bin/bash
# Runs every case of the two coverage probes of the executor — VxHLibProbe (library models, 66
# cases) and VxHLangProbe (Go language constructs, 20 cases) — and lists the cases that are not
# decided as "holds" (unsupported construct, wrong model = VIOLATION, crash). With NATIVE=1 every
# case is also compiled and run natively (`verif replay`) on one concrete input, which checks
# the expectation written into the probe itself.
# usage: tools/libprobe.sh [binary]
BIN=${1:-/verif/bin/verif}
cd /verif || exit 2
bad=0
probe() { # harness last
  for k in $(seq 0 $2); do
    out=$(VERIF_REPO=${VERIF_REPO:-/repo} timeout 300 $BIN run -pkg scipipe -fn $1 -param k=$k 2>&1)
    if echo "$out" | grep -qE "UNSUPPORTED|VIOLATION|unsupported=[1-9]|inconclusive=[1-9]" || ! echo "$out" | grep -q "probed:"; then
      bad=$((bad+1)); echo "$1 k=$k: $(echo "$out" | grep -E "UNSUPPORTED|VIOLATION" | head -2 | cut -c1-200 | tr '\n' ' ')"
    fi
    if [ -n "$NATIVE" ]; then
      d=$(mktemp -d); echo "{\"_harness\":\"$1\",\"_pkg\":\"scipipe\",\"_property\":\"probe\",\"_what\":\"probe.ok\",\"param.k\":$k,\"s\":\"a/B\",\"t\":\".c\"}" > $d/p.json
      timeout 300 $BIN replay $d/p.json 2>&1 | grep -q "VXRESULT PASS" || { bad=$((bad+1)); echo "$1 k=$k: native run does not pass"; }
      rm -rf $d
    fi
  done
}
probe VxHLibProbe 65
probe VxHLangProbe 19
echo "libprobe: $bad case(s) not decided"
[ $bad -eq 0 ]
