#!/bin/bash
# Runs every case of the library-model probe harness (VxLibProbe) and lists the cases that are
# not decided as "holds" (unsupported construct, wrong model = VIOLATION, crash).
# usage: tools/libprobe.sh [binary] [first] [last]
BIN=${1:-/verif/bin/verif}; A=${2:-0}; B=${3:-65}
cd /verif || exit 2
bad=0
for k in $(seq $A $B); do
  out=$(VERIF_REPO=${VERIF_REPO:-/repo} timeout 300 $BIN run -pkg scipipe -fn VxLibProbe -param k=$k 2>&1)
  if echo "$out" | grep -qE "UNSUPPORTED|VIOLATION|unsupported=[1-9]|inconclusive=[1-9]" || ! echo "$out" | grep -q "probed:"; then
    bad=$((bad+1)); echo "k=$k: $(echo "$out" | grep -E "UNSUPPORTED|VIOLATION" | head -2 | cut -c1-200 | tr '\n' ' ')"
  fi
done
echo "libprobe: $bad case(s) not decided"
[ $bad -eq 0 ]
